-- GENERATED on every run from /repo/Include by harness/constants/escape.cpp — do not edit
namespace Qentem.Generated.Escape
namespace W1
def htmlAnd : List Nat := [38, 97, 109, 112, 59]
def htmlLess : List Nat := [38, 108, 116, 59]
def htmlGreater : List Nat := [38, 103, 116, 59]
def htmlQuote : List Nat := [38, 113, 117, 111, 116, 59]
def htmlSingleQuote : List Nat := [38, 97, 112, 111, 115, 59]
def terminators : List Nat := [0, 0, 0, 0, 0]
def semicolon : Nat := 59
end W1
namespace W2
def htmlAnd : List Nat := [38, 97, 109, 112, 59]
def htmlLess : List Nat := [38, 108, 116, 59]
def htmlGreater : List Nat := [38, 103, 116, 59]
def htmlQuote : List Nat := [38, 113, 117, 111, 116, 59]
def htmlSingleQuote : List Nat := [38, 97, 112, 111, 115, 59]
def terminators : List Nat := [0, 0, 0, 0, 0]
def semicolon : Nat := 59
end W2
namespace W4
def htmlAnd : List Nat := [38, 97, 109, 112, 59]
def htmlLess : List Nat := [38, 108, 116, 59]
def htmlGreater : List Nat := [38, 103, 116, 59]
def htmlQuote : List Nat := [38, 113, 117, 111, 116, 59]
def htmlSingleQuote : List Nat := [38, 97, 112, 111, 115, 59]
def terminators : List Nat := [0, 0, 0, 0, 0]
def semicolon : Nat := 59
end W4
namespace WW
def htmlAnd : List Nat := [38, 97, 109, 112, 59]
def htmlLess : List Nat := [38, 108, 116, 59]
def htmlGreater : List Nat := [38, 103, 116, 59]
def htmlQuote : List Nat := [38, 113, 117, 111, 116, 59]
def htmlSingleQuote : List Nat := [38, 97, 112, 111, 115, 59]
def terminators : List Nat := [0, 0, 0, 0, 0]
def semicolon : Nat := 59
end WW
def autoEscapeDefault : Bool := true
end Qentem.Generated.Escape
