-- GENERATED on every run from /repo/Include by harness/constants/order.cpp — do not edit
namespace Qentem.Generated.Order
def valueTypeRanks : List Nat := [0, 1, 2, 3, 4, 5, 6, 7, 8, 9, 10]
def sizeTBits : Nat := 32
end Qentem.Generated.Order
