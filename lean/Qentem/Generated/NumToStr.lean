-- GENERATED on every run from /repo/Include by harness/constants/numtostr.cpp — do not edit
namespace Qentem.Generated.NumToStr
def digitTable1 : List Nat := [48, 48, 48, 49, 48, 50, 48, 51, 48, 52, 48, 53, 48, 54, 48, 55, 48, 56, 48, 57, 49, 48, 49, 49, 49, 50, 49, 51, 49, 52, 49, 53, 49, 54, 49, 55, 49, 56, 49, 57, 50, 48, 50, 49, 50, 50, 50, 51, 50, 52, 50, 53, 50, 54, 50, 55, 50, 56, 50, 57, 51, 48, 51, 49, 51, 50, 51, 51, 51, 52, 51, 53, 51, 54, 51, 55, 51, 56, 51, 57, 52, 48, 52, 49, 52, 50, 52, 51, 52, 52, 52, 53, 52, 54, 52, 55, 52, 56, 52, 57, 53, 48, 53, 49, 53, 50, 53, 51, 53, 52, 53, 53, 53, 54, 53, 55, 53, 56, 53, 57, 54, 48, 54, 49, 54, 50, 54, 51, 54, 52, 54, 53, 54, 54, 54, 55, 54, 56, 54, 57, 55, 48, 55, 49, 55, 50, 55, 51, 55, 52, 55, 53, 55, 54, 55, 55, 55, 56, 55, 57, 56, 48, 56, 49, 56, 50, 56, 51, 56, 52, 56, 53, 56, 54, 56, 55, 56, 56, 56, 57, 57, 48, 57, 49, 57, 50, 57, 51, 57, 52, 57, 53, 57, 54, 57, 55, 57, 56, 57, 57]
def digitTable2 : List Nat := [48, 49, 50, 51, 52, 53, 54, 55, 56, 57]
def digitTable1Size : Nat := 201
def digitTable2Size : Nat := 11
namespace C8
def maxShift : Nat := 64
def maxPowerOfFive : Nat := 27
def maxPowerOfTen : Nat := 19
def maxPowerOfTenValue : Nat := 10000000000000000000
def powerOfFive : List Nat := [1, 5, 25, 125, 625, 3125, 15625, 78125, 390625, 1953125, 9765625, 48828125, 244140625, 1220703125, 6103515625, 30517578125, 152587890625, 762939453125, 3814697265625, 19073486328125, 95367431640625, 476837158203125, 2384185791015625, 11920928955078125, 59604644775390625, 298023223876953125, 1490116119384765625, 7450580596923828125]
def powerOfOneOverFive : List Nat := [1, 14757395258967641293, 11805916207174113035, 9444732965739290428, 15111572745182864684, 12089258196146291748, 9671406556917033398, 15474250491067253437, 12379400392853802749, 9903520314283042200, 15845632502852867519, 12676506002282294015, 10141204801825835212, 16225927682921336340, 12980742146337069072, 10384593717069655258, 16615349947311448412, 13292279957849158730, 10633823966279326984, 17014118346046923174, 13611294676837538539, 10889035741470030831, 17422457186352049330, 13937965749081639464, 11150372599265311571, 17840596158824498514, 14272476927059598811, 11417981541647679048]
def powerOfOneOverFiveShift : List Nat := [0, 2, 4, 6, 9, 11, 13, 16, 18, 20, 23, 25, 27, 30, 32, 34, 37, 39, 41, 44, 46, 48, 51, 53, 55, 58, 60, 62]
end C8
namespace C4
def maxShift : Nat := 32
def maxPowerOfFive : Nat := 13
def maxPowerOfTen : Nat := 9
def maxPowerOfTenValue : Nat := 1000000000
def powerOfFive : List Nat := [1, 5, 25, 125, 625, 3125, 15625, 78125, 390625, 1953125, 9765625, 48828125, 244140625, 1220703125]
def powerOfOneOverFive : List Nat := [1, 3435973837, 2748779070, 2199023256, 3518437209, 2814749768, 2251799814, 3602879702, 2882303762, 2305843010, 3689348815, 2951479052, 2361183242, 3777893187]
def powerOfOneOverFiveShift : List Nat := [0, 2, 4, 6, 9, 11, 13, 16, 18, 20, 23, 25, 27, 30]
end C4
namespace F64
def size : Nat := 8
def bias : Nat := 1023
def exponentSize : Nat := 11
def mantissaSize : Nat := 52
def signMask : Nat := 9223372036854775808
def exponentMask : Nat := 9218868437227405312
def mantissaMask : Nat := 4503599627370495
def leadingBit : Nat := 4503599627370496
def maxCut : Nat := 300
def bigIntTotalBits : Nat := 1344
def bigIntMaxIndex : Nat := 20
def bigIntTypeWidth : Nat := 64
def bigIntSizeOfType : Nat := 8
def bigIntWidthFactor : Nat := 5
end F64
namespace F32
def size : Nat := 4
def bias : Nat := 127
def exponentSize : Nat := 8
def mantissaSize : Nat := 23
def signMask : Nat := 2147483648
def exponentMask : Nat := 2139095040
def mantissaMask : Nat := 8388607
def leadingBit : Nat := 8388608
def maxCut : Nat := 30
def bigIntTotalBits : Nat := 320
def bigIntMaxIndex : Nat := 4
def bigIntTypeWidth : Nat := 64
def bigIntSizeOfType : Nat := 8
def bigIntWidthFactor : Nat := 5
end F32
namespace S1
def infinity : List Nat := [105, 110, 102]
def notANumber : List Nat := [110, 97, 110]
def zeros : List Nat := [48, 48, 48, 48, 48, 48, 48, 48, 48, 48, 48, 48, 48, 48, 48, 48, 48, 48, 48]
def zerosLength : Nat := 19
def terminators : List Nat := [0, 0, 0]
end S1
namespace S2
def infinity : List Nat := [105, 110, 102]
def notANumber : List Nat := [110, 97, 110]
def zeros : List Nat := [48, 48, 48, 48, 48, 48, 48, 48, 48, 48, 48, 48, 48, 48, 48, 48, 48, 48, 48]
def zerosLength : Nat := 19
def terminators : List Nat := [0, 0, 0]
end S2
namespace S4
def infinity : List Nat := [105, 110, 102]
def notANumber : List Nat := [110, 97, 110]
def zeros : List Nat := [48, 48, 48, 48, 48, 48, 48, 48, 48, 48, 48, 48, 48, 48, 48, 48, 48, 48, 48]
def zerosLength : Nat := 19
def terminators : List Nat := [0, 0, 0]
end S4
namespace Ch
def zero : Nat := 48
def one : Nat := 49
def five : Nat := 53
def nine : Nat := 57
def e : Nat := 101
def dot : Nat := 46
def positive : Nat := 43
def negative : Nat := 45
end Ch
def fmtDefault : Nat := 0
def fmtFixed : Nat := 1
def fmtSemiFixed : Nat := 2
def defaultPrecision : Nat := 6
def systemIntBytes : Nat := 8
def sizeTBytes : Nat := 4
def maxDigits : List Nat := [3, 5, 10, 20]
end Qentem.Generated.NumToStr
