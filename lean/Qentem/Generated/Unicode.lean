-- GENERATED on every run from /repo/Include by harness/constants/unicode.cpp — do not edit
namespace Qentem.Generated.Unicode
namespace W1
def quote : Nat := 34
def bslash : Nat := 92
def slash : Nat := 47
def letters : List Nat := [98, 116, 110, 102, 114, 117, 85]
def controls : List Nat := [8, 9, 10, 12, 13]
end W1
namespace W2
def quote : Nat := 34
def bslash : Nat := 92
def slash : Nat := 47
def letters : List Nat := [98, 116, 110, 102, 114, 117, 85]
def controls : List Nat := [8, 9, 10, 12, 13]
end W2
namespace W4
def quote : Nat := 34
def bslash : Nat := 92
def slash : Nat := 47
def letters : List Nat := [98, 116, 110, 102, 114, 117, 85]
def controls : List Nat := [8, 9, 10, 12, 13]
end W4
namespace WW
def quote : Nat := 34
def bslash : Nat := 92
def slash : Nat := 47
def letters : List Nat := [98, 116, 110, 102, 114, 117, 85]
def controls : List Nat := [8, 9, 10, 12, 13]
end WW
def hexRanges : List Nat := [48, 57, 65, 70, 97, 102, 55, 87]
def sizeofSizeT32 : Nat := 4
def sizeofWchar : Nat := 4
end Qentem.Generated.Unicode
