/-!
# Array of a recursive owning item type (C14) — value semantics

`harness/arraytree_harness.cpp` drives `Array<Node>` with `struct Node { Array<Node> kids; unsigned id;
unsigned tag{0x5A5A}; }` — the shape of the library's own `Value`.  Source and destination of an
assignment may be related (`parent.kids = parent.kids[i].kids`, `child.kids = root.kids`).  As a plain
sequence the meaning of every operation is defined on values: a node is `{id, tag, kids : List Node}`, a
path is the list of item indexes from the root.

  n<path>:<id>   append a new node to `node(path).kids`             (`+= Move(node)`)
  a<dst>=<src>   `node(dst).kids += node(src)` (`const Node&`; `src` may be an item of `node(dst).kids` itself)
  c<dst>=<src>   `node(dst).kids = node(src).kids`                    (copy assignment, Array.hpp:87-98)
  m<dst>=<src>   `node(dst).kids = Move(node(src).kids)`              (move assignment, Array.hpp:66-85)
  r<path>        `Reset()`     z<path>:<n> `ResizeAndInitialize(n)`     v<path>:<n> `Reserve(n, true)`

All functions recurse on the path (never on the tree), so they are structurally total.
The source value is read before the destination changes (what commit "Array copy assignment completes
the copy before the destination changes" made true of the code).  Moving an array into one of its own
descendants (`src` a proper ancestor of `dst`) has no value meaning (the C++ builds an unreachable
cycle); the model empties the source, the destination then no longer exists — the harness never does it.
-/
namespace Qentem.SeqTree

structure Node where
  id : Nat
  tag : Nat
  kids : List Node
deriving Repr

/-- `tag{0x5A5A}`: a default-constructed item is not all zero bytes. -/
def defaultTag : Nat := 0x5A5A

def Node.fresh (id : Nat) : Node := ⟨id, defaultTag, []⟩

def getAt : Node → List Nat → Option Node
  | n, [] => some n
  | n, i :: p =>
    match n.kids[i]? with
    | some k => getAt k p
    | none => none

/-- Replace the kids of the node at `path` (nothing happens when the path does not exist). -/
def setKidsAt : Node → List Nat → List Node → Node
  | n, [], ks => ⟨n.id, n.tag, ks⟩
  | n, i :: p, ks =>
    match n.kids[i]? with
    | some k => ⟨n.id, n.tag, n.kids.set i (setKidsAt k p ks)⟩
    | none => n

inductive TreeOp where
  | new (path : List Nat) (id : Nat)
  | appendCopy (dst src : List Nat)    -- `node(dst).kids += node(src)` by `const&` (src anywhere: an item of that very array, an ancestor, …)
  | copy (dst src : List Nat)
  | move (dst src : List Nat)
  | reset (path : List Nat)
  | resizeInit (path : List Nat) (n : Nat)
  | reserveInit (path : List Nat) (n : Nat)
deriving Repr

/-- One operation; `none` = a path does not exist (the harness answers `bad-path`). -/
def TreeOp.step (op : TreeOp) (root : Node) : Option Node :=
  match op with
  | .new p id => (getAt root p).map fun n => setKidsAt root p (n.kids ++ [Node.fresh id])
  | .appendCopy d s =>
    match getAt root d, getAt root s with
    | some dn, some sn => some (setKidsAt root d (dn.kids ++ [sn]))     -- the argument's value is taken first
    | _, _ => none
  | .copy d s =>
    match getAt root d, getAt root s with
    | some _, some sn => some (setKidsAt root d sn.kids)
    | _, _ => none
  | .move d s =>
    match getAt root d, getAt root s with
    | some _, some sn =>
      if d = s then some root
      else some (setKidsAt (setKidsAt root s []) d sn.kids)
    | _, _ => none
  | .reset p => (getAt root p).map fun _ => setKidsAt root p []
  | .resizeInit p n =>
    (getAt root p).map fun nd => setKidsAt root p (nd.kids.take n ++ List.replicate (n - nd.kids.length) (Node.fresh 0))
  | .reserveInit p n => (getAt root p).map fun _ => setKidsAt root p (List.replicate n (Node.fresh 0))

/-- Run a program from the empty root (id 0), collecting the tree after every step. -/
def runTree : List TreeOp → Node → Option (List Node)
  | [], _ => some []
  | op :: ops, root =>
    match op.step root with
    | none => none
    | some r => (runTree ops r).map (r :: ·)

def rootInit : Node := Node.fresh 0

end Qentem.SeqTree
