import Qentem.Model.Json
/-
Model of `Value::Stringify` (Include/Value.hpp:1930-2075) and `JSONUtils::Escape`
(Include/JSONUtils.hpp:199-260).

* The output stream is the returned `List Nat`; `stringifyObject/Array` are transcribed with
  their trailing-comma patch **as coded**: every printed member is followed by `,` and at the
  end the last unit of the stream is inspected — a `,` is overwritten by the closing bracket,
  anything else gets the bracket appended (`closeWith`).
* Number printing (`Digit::NumberToString`) is a parameter (`Fmt`); its model lives in
  `Model/NumToStr.lean`.
* `ptr` members are looked through exactly like the C++ (`IsUndefined()` follows pointers,
  `stringifyValue` recurses into the target).
-/
namespace Qentem.Json

structure Fmt where
  nat : Nat → List Nat            -- NumberToString(stream, SizeT64)
  int : Nat → List Nat            -- NumberToString(stream, SizeT64I), argument = 64-bit pattern
  real : Nat → Nat → List Nat     -- NumberToString(stream, double bits, precision)

def hexDigitLower (d : Nat) : Nat := if d < 10 then 48 + d else 97 + (d - 10)

/-- `JSONUtils::Escape` -/
def escapeJson : List Nat → List Nat
  | [] => []
  | c :: rest =>
    if c = 34 ∨ c = 92 ∨ c = 47 then 92 :: c :: escapeJson rest
    else if c = 8 then 92 :: 98 :: escapeJson rest
    else if c = 9 then 92 :: 116 :: escapeJson rest
    else if c = 10 then 92 :: 110 :: escapeJson rest
    else if c = 12 then 92 :: 102 :: escapeJson rest
    else if c = 13 then 92 :: 114 :: escapeJson rest
    else if c < 32 then 92 :: 117 :: 48 :: 48 :: (48 + c / 16) :: hexDigitLower (c % 16) :: escapeJson rest
    else c :: escapeJson rest

/-- `Value::IsUndefined()` (follows pointers). -/
def isUndefined : JVal → Bool
  | .undef => true
  | .ptr t => isUndefined t
  | _ => false

/-- The trailing-comma patch: look at the last unit written so far. -/
def closeWith (out : List Nat) (bracket : Nat) : List Nat :=
  match out.getLast? with
  | some 44 => out.dropLast ++ [bracket]
  | _ => out ++ [bracket]

def strTrue : List Nat := [116, 114, 117, 101]
def strFalse : List Nat := [102, 97, 108, 115, 101]
def strNull : List Nat := [110, 117, 108, 108]

mutual
/-- `stringifyValue(val, stream, precision)`: returns the stream after the call. -/
def strValue (f : Fmt) (prec : Nat) : JVal → List Nat → List Nat
  | .obj ms, out => closeWith (strMembers f prec ms (out ++ [123])) 125
  | .arr xs, out => closeWith (strItems f prec xs (out ++ [91])) 93
  | .str s, out => out ++ [34] ++ escapeJson s ++ [34]
  | .nat n, out => out ++ f.nat n
  | .int n, out => out ++ f.int n
  | .real b, out => out ++ f.real b prec
  | .fals, out => out ++ strFalse
  | .tru, out => out ++ strTrue
  | .null, out => out ++ strNull
  | .ptr t, out => strValue f prec t out
  | .undef, out => out
/-- the member loop of `stringifyObject` -/
def strMembers (f : Fmt) (prec : Nat) : List (List Nat × JVal) → List Nat → List Nat
  | [], out => out
  | (k, v) :: rest, out =>
    if isUndefined v then strMembers f prec rest out
    else strMembers f prec rest (strValue f prec v (out ++ [34] ++ escapeJson k ++ [34, 58]) ++ [44])
/-- the item loop of `stringifyArray` -/
def strItems (f : Fmt) (prec : Nat) : List JVal → List Nat → List Nat
  | [], out => out
  | v :: rest, out =>
    if isUndefined v then strItems f prec rest out
    else strItems f prec rest (strValue f prec v out ++ [44])
end

/-- `Value::Stringify(stream, precision)`: only containers (possibly behind a pointer) print. -/
def stringify (f : Fmt) (prec : Nat) : JVal → List Nat → List Nat
  | .obj ms, out => strValue f prec (.obj ms) out
  | .arr xs, out => strValue f prec (.arr xs) out
  | .ptr t, out => stringify f prec t out
  | _, out => out

/-! ### Specification side: the text a JSON serializer is supposed to produce -/

mutual
/-- Reference serializer: members joined by commas, undefined members omitted. -/
def specValue (f : Fmt) (prec : Nat) : JVal → List Nat
  | .obj ms => [123] ++ specMembers f prec ms true ++ [125]
  | .arr xs => [91] ++ specItems f prec xs true ++ [93]
  | .str s => [34] ++ escapeJson s ++ [34]
  | .nat n => f.nat n
  | .int n => f.int n
  | .real b => f.real b prec
  | .fals => strFalse
  | .tru => strTrue
  | .null => strNull
  | .ptr t => specValue f prec t
  | .undef => []
def specMembers (f : Fmt) (prec : Nat) : List (List Nat × JVal) → Bool → List Nat
  | [], _ => []
  | (k, v) :: rest, first =>
    if isUndefined v then specMembers f prec rest first
    else (if first then [] else [44]) ++ [34] ++ escapeJson k ++ [34, 58] ++ specValue f prec v ++ specMembers f prec rest false
def specItems (f : Fmt) (prec : Nat) : List JVal → Bool → List Nat
  | [], _ => []
  | v :: rest, first =>
    if isUndefined v then specItems f prec rest first
    else (if first then [] else [44]) ++ specValue f prec v ++ specItems f prec rest false
end

/-- What parsing the text back is specified to give: pointers looked through, undefined
members dropped, duplicate keys cannot occur in a Value object. -/
def normalize : JVal → JVal
  | .ptr t => normalize t
  | .arr xs => .arr (normItems xs)
  | .obj ms => .obj (normMembers ms)
  | v => v
where
  normItems : List JVal → List JVal
    | [] => []
    | v :: rest => if isUndefined v then normItems rest else normalize v :: normItems rest
  normMembers : List (List Nat × JVal) → List (List Nat × JVal)
    | [] => []
    | (k, v) :: rest => if isUndefined v then normMembers rest else (k, normalize v) :: normMembers rest

end Qentem.Json
