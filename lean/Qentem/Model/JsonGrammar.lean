import Qentem.Model.Json
/-
Specification side of C06: RFC 8259 documents as an abstract syntax with explicit layout, their
printed text and the value they denote.  Written from the RFC, not from the parser.

String bodies and numerals are tokens whose meaning comes from the two sub-routine
specifications (`StrSpec`, `NumSpec` in `Proofs/JsonGrammar.lean`); everything structural —
nesting, separators, whitespace at every legal position, member order, duplicate keys — is here.
-/
namespace Qentem.Json

/-- A run of RFC 8259 whitespace: space, LF, TAB, CR. -/
abbrev Ws := List Nat

inductive JDoc where
  | null | tru | fals
  | num (tok : List Nat) (kind : NumKind) (bits : Nat)   -- numeral text and the number it denotes
  | str (body : List Nat) (text : List Nat)             -- text between the quotes and its decoded value
  /-- `[` ws₀ (item wsᵢ),* `]` ; each later item is preceded by `,` wsᵢ' -/
  | arr (ws0 : Ws) (items : List (Ws × JDoc × Ws))
  /-- `{` ws₀ (key ws `:` ws value ws),* `}` -/
  | obj (ws0 : Ws) (members : List (Ws × List Nat × List Nat × Ws × Ws × JDoc × Ws))
  deriving Inhabited

mutual
/-- The text of a document. -/
def JDoc.print : JDoc → List Nat
  | .null => [110, 117, 108, 108]
  | .tru => [116, 114, 117, 101]
  | .fals => [102, 97, 108, 115, 101]
  | .num tok _ _ => tok
  | .str body _ => [34] ++ body ++ [34]
  | .arr ws0 items => [91] ++ ws0 ++ printItems items true ++ [93]
  | .obj ws0 members => [123] ++ ws0 ++ printMembers members true ++ [125]
/-- items; `first = false` prefixes `,` and the item's leading whitespace -/
def printItems : List (Ws × JDoc × Ws) → Bool → List Nat
  | [], _ => []
  | (wsB, d, wsA) :: rest, first =>
    (if first then [] else [44] ++ wsB) ++ d.print ++ wsA ++ printItems rest false
def printMembers : List (Ws × List Nat × List Nat × Ws × Ws × JDoc × Ws) → Bool → List Nat
  | [], _ => []
  | (wsB, kbody, _, ws1, ws2, d, wsA) :: rest, first =>
    (if first then [] else [44] ++ wsB) ++ [34] ++ kbody ++ [34] ++ ws1 ++ [58] ++ ws2 ++ d.print ++ wsA ++
      printMembers rest false
end

mutual
/-- The value a document denotes: same structure and order; duplicate keys: the last value at
the first key's position. -/
def JDoc.denote : JDoc → JVal
  | .null => .null
  | .tru => .tru
  | .fals => .fals
  | .num _ kind bits =>
    match kind with
    | .natural => .nat bits
    | .integer => .int bits
    | .real => .real bits
    | .notANumber => .undef
  | .str _ text => .str text
  | .arr _ items => .arr (denoteItems items)
  | .obj _ members => .obj (denoteMembers members [])
def denoteItems : List (Ws × JDoc × Ws) → List JVal
  | [] => []
  | (_, d, _) :: rest => d.denote :: denoteItems rest
def denoteMembers : List (Ws × List Nat × List Nat × Ws × Ws × JDoc × Ws) → List (List Nat × JVal) → List (List Nat × JVal)
  | [], acc => acc
  | (_, _, ktext, _, _, d, _) :: rest, acc => denoteMembers rest (objInsert acc ktext d.denote)
end

end Qentem.Json
