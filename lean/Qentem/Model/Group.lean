import Qentem.Model.Value
/-
Model of `Value::GroupBy` (Include/Value.hpp:1849-1912) and its specification.

`groupByA` follows the loop: the outer cursor `item_` over the array, the inner cursor `obj_item`
over *all* slots of the element (removed items included), the scratch object `new_sub_obj` that
is moved into the group after each element (and is therefore empty again), and the pair
`str/str_len`, which is *not* reset between elements (an element without the key is filed under the
previous element's text).  A removed item (`Hash == 0`) is skipped (repair 04169f1; before it the call returned
`false`); a live member whose value is undefined (created by a subscript and never assigned) makes
the call return `false`, with the groups built so far left in the destination (the pinned suite
requires that, Tests/ValueTest.hpp:5773-5779).

`groupBySpec` is the specification on association lists.
No proofs in this file.
-/
namespace Qentem.Value
open Doc

/-- Text of a grouping value: `SetCharAndLength`, else `CopyValueTo` (Value.hpp:1877-1886). -/
def groupText (fmtReal : Nat → List Nat) (env : Env) (v : Doc) : Option Key :=
  match setCharAndLength env v with
  | some t => some t
  | none => copyValueTo fmtReal env v

/-- `new_sub_obj[key] = value` (HArray::operator[](const Key_T&) then Value copy assignment). -/
def subObjSet (k : Key) (v : Doc) (o : Nat × List Slot) : Nat × List Slot :=
  let e := objExpand o.1 o.2
  (e.1, slotUpd k (fun _ => copyDoc v) e.2)

/-- Inner loop over the slots of one element. `none` = `return false`. -/
def groupScan (fmtReal : Nat → List Nat) (env : Env) (key : Key) :
    List Slot → Key → Nat × List Slot → Option (Key × (Nat × List Slot))
  | [], cur, sub => some (cur, sub)
  | none :: r, cur, sub => groupScan fmtReal env key r cur sub
  | some (k, v) :: r, cur, sub =>
    if v.isUndef then none
    else if k ≠ key then groupScan fmtReal env key r cur (subObjSet k v sub)
    else
      match groupText fmtReal env v with
      | some t => groupScan fmtReal env key r t sub
      | none => none

/-- `groupedValue.object_.Get(str, str_len) += Memory::Move(new_sub_obj)` (Value.hpp:1896). -/
def groupAdd (cur : Key) (sub : Nat × List Slot) (res : Nat × List Slot) : Nat × List Slot :=
  let e := objExpand res.1 res.2
  (e.1, slotUpd cur (addObj sub.1 sub.2) e.2)

/-- Outer loop. -/
def groupLoop (fmtReal : Nat → List Nat) (env : Env) (key : Key) :
    List Doc → Key → Nat × List Slot → Bool × (Nat × List Slot)
  | [], _, res => (true, res)
  | obj _ slots :: rest, cur, res =>
    match groupScan fmtReal env key slots cur (0, []) with
    | some (cur', sub) => groupLoop fmtReal env key rest cur' (groupAdd cur' sub res)
    | none => (false, res)
  | _ :: _, _, res => (false, res)

/-- `GroupBy(groupedValue, key, length)`: returns the result flag and the new `groupedValue`
(`dest` is its previous content: untouched when the source is not an array). -/
def groupByA (fmtReal : Nat → List Nat) (env : Env) (src : Doc) (key : Key) (dest : Doc) :
    Bool × Doc :=
  match deref env src with
  | arr items =>
    match items with
    | obj _ fs :: _ =>
      if (slotFind key fs).isSome then
        let r := groupLoop fmtReal env key items [] (0, [])
        (r.1, obj r.2.1 r.2.2)
      else (false, obj 0 [])
    | _ => (false, obj 0 [])
  | _ => (false, dest)

/-! ### Specification -/

/-- The members of an object that a reader can see: live items with a defined value, in slot order. -/
def members : List Slot → List (Key × Doc)
  | [] => []
  | none :: r => members r
  | some (k, v) :: r => if v.isUndef then members r else (k, v) :: members r

/-- No live item has an undefined value (a member created by a subscript and never assigned is not a
"removed member": `GroupBy` answers `false` for it, which the pinned suite requires). -/
def allDefined : List Slot → Bool
  | [] => true
  | none :: r => allDefined r
  | some (_, v) :: r => !v.isUndef && allDefined r

def assocFind (k : Key) : List (Key × α) → Option α
  | [] => none
  | (k', v) :: r => if k' = k then some v else assocFind k r

/-- Append `x` to the group `t`, creating the group after the existing ones. -/
def groupInsert (t : Key) (x : α) : List (Key × List α) → List (Key × List α)
  | [] => [(t, [x])]
  | (t', xs) :: r => if t' = t then (t', xs ++ [x]) :: r else (t', xs) :: groupInsert t x r

/-- One input object: its grouping text (by **name**) and the object without the grouping member. -/
def groupEntry (text : Doc → Option Key) (key : Key) (o : List (Key × Doc)) : Option (Key × List (Key × Doc)) :=
  match assocFind key o with
  | some v =>
    match text v with
    | some t => some (t, o.filter (fun e => decide (e.1 ≠ key)))
    | none => none
  | none => none

/-- Grouping as a left fold over the input objects: distinct texts in order of first appearance, each
with its objects in input order, the grouping member removed.  `none` when some object has no
grouping member or its value has no text. -/
def groupBySpec (text : Doc → Option Key) (key : Key) :
    List (List (Key × Doc)) → List (Key × List (List (Key × Doc))) → Option (List (Key × List (List (Key × Doc))))
  | [], acc => some acc
  | o :: rest, acc =>
    match groupEntry text key o with
    | some (t, o') => groupBySpec text key rest (groupInsert t o' acc)
    | none => none

/-- What a reader sees of a grouped result: group names with, per group, the member lists of its
elements (elements that are not objects show as no members). -/
def groupView : Doc → List (Key × List (List (Key × Doc)))
  | obj _ slots =>
    (members slots).map (fun g =>
      (g.1, match g.2 with
            | arr items => items.map (fun it => match it with
                | obj _ s => members s
                | _ => [])
            | _ => []))
  | _ => []

end Qentem.Value
