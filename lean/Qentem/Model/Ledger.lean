/-
Allocation ledger (C16).  An execution of the library is abstracted to the trace of what it asks
the allocator: `alloc id size`, `free id`, and `touch id` (a read or write inside block `id`).
`run` replays a trace against the set of live blocks and fails on the first violation:
a `free` or `touch` of a block that is not live (double free, free of something never allocated,
use after release) or an `alloc` that reuses a live id.  A trace is `Balanced` when it runs
without violation from the empty heap back to the empty heap: everything released exactly once.

The harness produces the real trace by replacing the global `operator new/delete`
(harness/ledger.hpp); ids number the allocations in order.
-/
namespace Qentem.Ledger

inductive Ev where
  | alloc (id size : Nat)
  | free (id : Nat)
  | touch (id : Nat)
  deriving Repr, DecidableEq

/-- live blocks: (id, size) -/
abbrev Heap := List (Nat × Nat)

def isLive (h : Heap) (id : Nat) : Bool := h.any (fun b => b.1 == id)

def release (h : Heap) (id : Nat) : Heap := h.filter (fun b => b.1 != id)

def step (h : Heap) : Ev → Option Heap
  | .alloc id size => if isLive h id then none else some ((id, size) :: h)
  | .free id => if isLive h id then some (release h id) else none
  | .touch id => if isLive h id then some h else none

def run : List Ev → Heap → Option Heap
  | [], h => some h
  | e :: rest, h =>
    match step h e with
    | none => none
    | some h' => run rest h'

/-- No violation and nothing left allocated. -/
def Balanced (tr : List Ev) : Prop := run tr [] = some []

/-- Index of the first violating event, for the replay file. -/
def firstViolation : List Ev → Heap → Nat → Option Nat
  | [], _, _ => none
  | e :: rest, h, i =>
    match step h e with
    | none => some i
    | some h' => firstViolation rest h' (i + 1)

end Qentem.Ledger
