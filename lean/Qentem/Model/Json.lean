/-
Model of the JSON parser `JSON::JSONParser` (Include/JSON.hpp:61-290) in *checked semantics*.

* The input is `content : Array Nat` with `length = content.size` (the harness hands the C++ an
  exact-size heap buffer), every `content[offset]` of the C++ is `rd content offset`, which
  raises `Fault.oobRead` when `offset ≥ length` — "memory-safe for every input" is the theorem
  that no run ends in `.error`.
* `SizeT &offset` becomes a returned offset; `ValueT` becomes `JVal`.
* The three mutually recursive C++ functions and their `while` loops are one mutual block on
  a fuel argument; `Props/C05.lean` proves `3·length + 3` fuel is never exhausted.
* The two routines from other headers are parameters (`Deps`): `JSONUtils::UnEscape` (modelled
  in `Model/Unicode.lean`) and `Digit::StringToNumber` (modelled in `Model/StrToNum.lean`).
  The theorems need from them only what `DepsSafe` states.
* The scratch `stream` is empty at entry of every string parse (it is cleared after use and
  `JSON::Parse(content, length)` creates it), so it is a value returned by `unEscape`.
-/
namespace Qentem.Json

inductive Fault where
  | oobRead (index size : Nat)
  | fuel
  deriving Repr, DecidableEq

abbrev M := Except Fault

@[inline] def rd (c : Array Nat) (i : Nat) : M Nat :=
  if h : i < c.size then pure c[i] else throw (.oobRead i c.size)

inductive NumKind where
  | notANumber | natural | integer | real
  deriving Repr, DecidableEq

structure NumRes where
  kind : NumKind
  bits : Nat        -- 64-bit pattern (two's complement for `integer`, IEEE-754 for `real`)
  newOffset : Nat
  deriving Repr

structure Deps where
  /-- `UnEscape(content + start, len, stream)`: returns (return value, stream content). -/
  unEscape : Array Nat → Nat → Nat → M (Nat × List Nat)
  /-- `StringToNumber(number, content, offset, length)`. -/
  strToNum : Array Nat → Nat → Nat → M NumRes

inductive JVal where
  | undef | null | tru | fals
  | nat (bits : Nat) | int (bits : Nat) | real (bits : Nat)
  | str (s : List Nat)
  | arr (items : List JVal)
  | obj (members : List (List Nat × JVal))
  | ptr (target : JVal)          -- pointer-to-value member (never produced by the parser)
  deriving Repr, Inhabited

def isWs (c : Nat) : Bool := c == 32 || c == 10 || c == 9 || c == 13

/-- `StringUtils::TrimLeft(content, offset, length)` -/
def trimLeft (c : Array Nat) (offset : Nat) : Nat :=
  if h : offset < c.size then
    if isWs c[offset] then trimLeft c (offset + 1) else offset
  else offset
termination_by c.size - offset

/-- `HArray::Insert(key, value)`: replace the value at the key's first position, else append. -/
def objInsert : List (List Nat × JVal) → List Nat → JVal → List (List Nat × JVal)
  | [], k, v => [(k, v)]
  | (k', v') :: rest, k, v => if k' = k then (k', v) :: rest else (k', v') :: objInsert rest k v

def cQuote : Nat := 34
def cComma : Nat := 44
def cColon : Nat := 58
def cSCurly : Nat := 123
def cECurly : Nat := 125
def cSSquare : Nat := 91
def cESquare : Nat := 93

/-- Keyword tails after the first letter, as the C++ literal without its terminator. -/
def trueTail : List Nat := [114, 117, 101]        -- "rue"
def falseTail : List Nat := [97, 108, 115, 101]   -- "alse"
def nullTail : List Nat := [117, 108, 108]        -- "ull"

/-- The keyword loop `while (offset < length && *kw != 0 && content[offset] == *kw)`;
returns the new offset and what is left of the literal. -/
def matchKeyword (c : Array Nat) : Nat → List Nat → Nat × List Nat
  | offset, [] => (offset, [])
  | offset, k :: ks =>
    if h : offset < c.size then
      if c[offset] = k then matchKeyword c (offset + 1) ks else (offset, k :: ks)
    else (offset, k :: ks)

/-- The text of a parsed string: the scratch stream when un-escaping wrote to it, else the
slice `[start, start + len - 1)` of the input. -/
def stringOf (c : Array Nat) (start len : Nat) (stream : List Nat) : List Nat :=
  if !stream.isEmpty then stream else (c.extract start (start + (len - 1))).toList

mutual

/-- `parseValue` -/
def parseValue (d : Deps) (c : Array Nat) : Nat → Nat → M (JVal × Nat)
  | 0, _ => throw .fuel
  | fuel + 1, offset => do
    let length := c.size
    if offset ≥ length then return (.undef, length)
    let ch ← rd c offset
    if ch = cSCurly then parseObject d c fuel (offset + 1)
    else if ch = cSSquare then parseArray d c fuel (offset + 1)
    else if ch = cQuote then
      let offset := offset + 1
      let (len, stream) ← d.unEscape c offset (length - offset)
      if len ≠ 0 then return (.str (stringOf c offset len stream), offset + len)
      else return (.undef, length)
    else if ch = 116 then       -- 't'
      let (o, rest) := matchKeyword c (offset + 1) trueTail
      if rest.isEmpty then return (.tru, o) else return (.undef, length)
    else if ch = 102 then       -- 'f'
      let (o, rest) := matchKeyword c (offset + 1) falseTail
      if rest.isEmpty then return (.fals, o) else return (.undef, length)
    else if ch = 110 then       -- 'n'
      let (o, rest) := matchKeyword c (offset + 1) nullTail
      if rest.isEmpty then return (.null, o) else return (.undef, length)
    else
      let r ← d.strToNum c offset length
      match r.kind with
      | .natural => return (.nat r.bits, r.newOffset)
      | .integer => return (.int r.bits, r.newOffset)
      | .real => return (.real r.bits, r.newOffset)
      | .notANumber => return (.undef, length)

/-- `parseObject` up to the loop -/
def parseObject (d : Deps) (c : Array Nat) : Nat → Nat → M (JVal × Nat)
  | 0, _ => throw .fuel
  | fuel + 1, offset => do
    let offset := trimLeft c offset
    if offset ≥ c.size then objLoop d c fuel offset []
    else
      let ch ← rd c offset
      if ch ≠ cECurly then objLoop d c fuel offset []
      else return (.obj [], offset + 1)

/-- one iteration of `while (offset < length && content[offset] == '"')` in `parseObject` -/
def objLoop (d : Deps) (c : Array Nat) : Nat → Nat → List (List Nat × JVal) → M (JVal × Nat)
  | 0, _, _ => throw .fuel
  | fuel + 1, offset, members => do
    let length := c.size
    let fail : M (JVal × Nat) := pure (.undef, length)
    if offset ≥ length then fail else
    let ch ← rd c offset
    if ch ≠ cQuote then fail else
    let offset := offset + 1
    let (len, stream) ← d.unEscape c offset (length - offset)
    if len = 0 then fail else
    let key := stringOf c offset len stream
    let offset := trimLeft c (offset + len)
    if offset ≥ length then fail else
    let ch ← rd c offset
    if ch ≠ cColon then fail else
    let offset := trimLeft c (offset + 1)
    let (v, offset) ← parseValue d c fuel offset
    let members := objInsert members key v
    let offset := trimLeft c offset
    if offset ≥ length then fail else
    let ch ← rd c offset
    if ch = cComma then objLoop d c fuel (trimLeft c (offset + 1)) members
    else if ch = cECurly then return (.obj members, offset + 1)
    else fail

/-- `parseArray` up to the loop -/
def parseArray (d : Deps) (c : Array Nat) : Nat → Nat → M (JVal × Nat)
  | 0, _ => throw .fuel
  | fuel + 1, offset => do
    let offset := trimLeft c offset
    if offset ≥ c.size then arrLoop d c fuel offset []
    else
      let ch ← rd c offset
      if ch ≠ cESquare then arrLoop d c fuel offset []
      else return (.arr [], offset + 1)

/-- one iteration of `while (offset < length)` in `parseArray`; items are kept reversed -/
def arrLoop (d : Deps) (c : Array Nat) : Nat → Nat → List JVal → M (JVal × Nat)
  | 0, _, _ => throw .fuel
  | fuel + 1, offset, items => do
    let length := c.size
    let fail : M (JVal × Nat) := pure (.undef, length)
    if offset ≥ length then fail else
    let (v, offset) ← parseValue d c fuel offset
    let items := v :: items
    let offset := trimLeft c offset
    if offset ≥ length then fail else
    let ch ← rd c offset
    if ch = cComma then arrLoop d c fuel (trimLeft c (offset + 1)) items
    else if ch = cESquare then return (.arr items.reverse, offset + 1)
    else fail

end

def fuelFor (c : Array Nat) : Nat := 3 * c.size + 3

/-- `JSONParser::Parse(stream, content, length)` -/
def parse (d : Deps) (c : Array Nat) : M JVal := do
  if c.size = 0 then return .undef
  let offset := trimLeft c 0
  let (v, offset) ← parseValue d c (fuelFor c) offset
  let offset := trimLeft c offset
  if offset = c.size then return v else return .undef

/-- What the parser needs from the two external routines. -/
structure DepsSafe (d : Deps) : Prop where
  unEscape_ok : ∀ (c : Array Nat) (start len : Nat), start + len ≤ c.size →
    ∃ r s, d.unEscape c start len = .ok (r, s) ∧ r ≤ len
  strToNum_ok : ∀ (c : Array Nat) (offset : Nat), c.size < 2 ^ 32 → offset < c.size →
    ∃ r, d.strToNum c offset c.size = .ok r ∧
      (r.kind ≠ .notANumber → offset < r.newOffset ∧ r.newOffset ≤ c.size)

end Qentem.Json
