import Qentem.Model.Expr
/-!
# C04 — reference semantics: binary expression trees

`Tree` is the ordinary expression tree; `evalTree` evaluates it recursively with the same typed
arithmetic (`applyOp`) and the same operand rule as the code (an operand is fetched in the context
of the operator that consumes it; a parenthesised sub-expression is evaluated on its own).
`climb` builds the tree of a flat item list by operator precedence with left association at equal
rank: every new operator is attached below all operators of *strictly lower* rank on the right
spine of the tree built so far (`attach`), i.e. an operator of higher rank takes the operand on its
left away from a pending operator of lower rank, an operator of equal or lower rank takes the whole
pending sub-tree as its left operand.  No fuel, no cursors: structural recursion only.

`flatten` / `printExpr` are the inverse direction (tree → item list → text) used by the scanner
statement `scan_print`.
-/
namespace Qentem.Expr

/-- an operand that is not a parenthesised sub-expression -/
inductive Leaf (R : Type) where
  | num (n : Num R)
  | var (v : VarRef)
  | text (off len : Nat)

inductive Tree (R : Type) where
  | leaf (x : Leaf R)
  | paren (t : Tree R)
  | bin (op : Op) (l r : Tree R)

section
variable {R : Type} [RealLike R]

/-- an operand consumed by operator `ctx` (`Op.noOp`: the operand is the whole expression) -/
def evalLeaf (env : Env R) (ctx : Op) : Leaf R → Option (Val R)
  | .num n => some (.num n)
  | .var v => getVar env v ctx ctx
  | .text off len => some (.text off len)

/-- "the result is a number" (`left.Type != NotANumber`): a lone text operand has no value -/
def notText (v : Val R) : Option (Val R) := if v.isText then none else some v

/-- ordinary recursive evaluation; `ctx` = the operator that consumes the result -/
def evalTree (env : Env R) : Op → Tree R → Option (Val R)
  | ctx, .leaf x => evalLeaf env ctx x
  | _, .paren t => (evalTree env .noOp t).bind notText
  | _, .bin op l r =>
    match evalTree env op l with
    | none => none
    | some a =>
      match evalTree env op r with
      | none => none
      | some b => applyOp env op a b

/-- value of a whole expression -/
def evalTop (env : Env R) (t : Tree R) : Option (Val R) := (evalTree env .noOp t).bind notText

end

section
variable {R : Type}

/-- attach `op x` to the tree built so far -/
def attach : Tree R → Op → Tree R → Tree R
  | .bin o l r, op, x =>
    if o.rank < op.rank then .bin o l (attach r op x) else .bin op (.bin o l r) x
  | .leaf y, op, x => .bin op (.leaf y) x
  | .paren t, op, x => .bin op (.paren t) x

mutual
def climbOperand : Operand R → Tree R
  | .num n => .leaf (.num n)
  | .var v => .leaf (.var v)
  | .text off len => .leaf (.text off len)
  | .sub items => .paren (climb items)
/-- the expression tree of a flat list (`[]` is not an expression; junk leaf) -/
def climb : List (Item R) → Tree R
  | [] => .leaf (.text 0 0)
  | (x, o) :: rest => climbGo (climbOperand x) o rest
/-- `acc` = tree of the operands read so far, `op` = the operator after them -/
def climbGo (acc : Tree R) (op : Op) : List (Item R) → Tree R
  | [] => acc
  | (x, o) :: rest => climbGo (attach acc op (climbOperand x)) o rest
end

mutual
/-- well-formed flat list: non-empty, exactly the last entry carries `NoOp`, recursively. -/
def Operand.wf : Operand R → Bool
  | .sub items => wfItems items
  | _ => true
def wfItems : List (Item R) → Bool
  | [] => false
  | (x, o) :: rest => x.wf && wfTail o rest
def wfTail (o : Op) : List (Item R) → Bool
  | [] => o == .noOp
  | (x, o') :: rest => o != .noOp && x.wf && wfTail o' rest
end

/-- a text or unresolved-variable operand directly under an operator other than `==`/`!=`
(outside the modelled domain, see `applyChk`) -/
def Tree.isTextLeaf : Tree R → Bool
  | .leaf (.text _ _) => true
  | _ => false

def Tree.textArith : Tree R → Bool
  | .leaf _ => false
  | .paren t => t.textArith
  | .bin op l r =>
    (!op.isEq && (l.isTextLeaf || r.isTextLeaf)) || l.textArith || r.textArith

/-! ## Trees → flat lists → text (for `scan_print`) -/

/-- in-order list of a tree; `last` is the operator that follows the whole tree -/
def flattenGo : Tree R → Op → List (Item R) → List (Item R)
  | .leaf (.num n), last, acc => (.num n, last) :: acc
  | .leaf (.var v), last, acc => (.var v, last) :: acc
  | .leaf (.text o l), last, acc => (.text o l, last) :: acc
  | .paren t, last, acc => (.sub (flattenGo t .noOp []), last) :: acc
  | .bin op l r, last, acc => flattenGo l op (flattenGo r last acc)

def flatten (t : Tree R) : List (Item R) := flattenGo t .noOp []

/-- operator spelling -/
def Op.symbol : Op → List Nat
  | .or => [cOr, cOr] | .and => [cAnd, cAnd] | .equal => [cEq, cEq] | .notEqual => [cNot, cEq]
  | .greaterOrEqual => [cGreater, cEq] | .lessOrEqual => [cLess, cEq] | .greater => [cGreater]
  | .less => [cLess] | .bitOr => [cOr] | .bitAnd => [cAnd] | .add => [cAdd] | .sub => [cSub]
  | .mul => [cMul] | .div => [cDiv] | .rem => [cRem] | .exp => [cExp]
  | .noOp => [] | .error => []

end
end Qentem.Expr
