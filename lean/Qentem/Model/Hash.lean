/-
Model of `StringUtils::Hash` (Include/StringUtils.hpp:164-187) and of the key comparisons the hash
array uses when it sorts (`StringUtils::IsLess` / `IsGreater`, StringUtils.hpp:111-149, reached
through `String::operator<` / `operator>` from `HAItem_T::operator<` / `operator>`).

`SizeT` is 32-bit unsigned in this build: every `+=`, `*=` is followed by `% 2^32`.
The C++ loop consumes the key from both ends: it reads `key[offset]`, decrements `length`, reads
`key[length]`, increments `offset`, while `offset < length`.  The recursion below carries the not yet
consumed middle part `key[offset .. length)` as a list, so `key[offset]` is its head and
`key[length-1]` its last element (the same unit when one unit is left) - no index can be out of
range by construction.  `offset` / `length` are still carried as numbers because they enter the
arithmetic.  The test `if (offset != length)` inside the loop is always true there.

`SizeT(key[i])` converts a code unit to 32 bits.  For `char` (signed 8-bit with g++ on x86-64) this
sign-extends: units 128..255 become `2^32 - 256 + c` (`convChar`); for the unsigned 16/32-bit unit
types it is the identity (`convU`).  The same signedness decides `left[offset] < right[offset]` in
IsLess/IsGreater: `ordChar` maps a byte to its rank in signed order.
-/
namespace Qentem.Hash

/-- 2^32: `SizeT` arithmetic wraps here. -/
def W : Nat := 4294967296

/-- `SizeT(c)` for `Char_T = char` (signed): sign extension to 32 bits. -/
def convChar (c : Nat) : Nat := if c % 256 < 128 then c % 256 else c % 256 + (W - 256)

/-- `SizeT(c)` for the unsigned unit types. -/
def convU (c : Nat) : Nat := c % W

/-- The loop of `StringUtils::Hash`; `mid = key[offset .. length)`. -/
def hashLoop (conv : Nat → Nat) : List Nat → Nat → Nat → Nat → Nat → Nat
  | [], hash, _, _, _ => hash
  | a :: rest, hash, base, offset, length =>
    let hash := (hash + base * offset * conv a) % W                          -- hash += base * offset * key[offset]
    let base := (base + offset) % W                                          -- base += offset
    let hash := (hash * (length ^^^ offset)) % W                             -- hash *= (length ^ offset)
    let base := (base + offset) % W                                          -- base += offset
    let length := length - 1                                                 -- --length
    let hash := (hash + conv ((a :: rest).getLast (List.cons_ne_nil a rest))) % W  -- hash += key[length]
    hashLoop conv rest.dropLast hash base (offset + 1) length                -- ++offset
termination_by mid => mid.length
decreasing_by simp [List.length_dropLast]; omega

/-- `StringUtils::Hash(key, length)`: seeds 11 / 33, top bit forced. -/
def hashWith (conv : Nat → Nat) (key : List Nat) : Nat :=
  hashLoop conv key 11 33 0 key.length ||| 2147483648

/-- The hash of `String<char>` keys (what HArray/HList are instantiated with in the harness). -/
def hashChar (key : List Nat) : Nat := hashWith convChar key

/-- Rank of a byte in the order of signed `char`. -/
def ordChar (c : Nat) : Nat := (c % 256 + 128) % 256

/-- `StringUtils::IsLess(left, right, left_length, right_length, orEqual)` as it is now (a proper
prefix is smaller).  `ord` is the rank of a code unit in the order of `Char_T`. -/
def isLess (ord : Nat → Nat) : List Nat → List Nat → Bool → Bool
  | a :: l, b :: r, orEqual =>
    if ord a > ord b then false
    else if ord a < ord b then true
    else isLess ord l r orEqual
  | l, r, orEqual => decide (l.length < r.length) || (orEqual && decide (l.length = r.length))

/-- `StringUtils::IsGreater`. -/
def isGreater (ord : Nat → Nat) : List Nat → List Nat → Bool → Bool
  | a :: l, b :: r, orEqual =>
    if ord a < ord b then false
    else if ord a > ord b then true
    else isGreater ord l r orEqual
  | l, r, orEqual => decide (l.length > r.length) || (orEqual && decide (l.length = r.length))

end Qentem.Hash
