/-
Model of the comparison routines (property C15).

* `isLess` / `isGreater` / `isEqualN`  — `StringUtils::IsLess`, `IsGreater`, `IsEqual`
  (Include/StringUtils.hpp:111-162).  Code units are `Nat` (one definition for every character
  width; for the signed `char` build the harness maps a unit `u` to `(u + 128) % 256`, which
  is the order the C++ `<` on `char` sees).
  - `isLessA` / `isGreaterA` are the *cursor* models: two arrays, two lengths passed
    separately (as the C++ passes `left_length`, `right_length` next to the pointers), one
    `offset`; every read is checked (`none` = read outside the array).  They are what the
    driver runs.
  - `isLess` / `isGreater` are the suffix recursions on lists used by the proofs;
    `Proofs/Order.lean` shows `isLessA l r l.size r.size e 0 = some (isLess l.toList r.toList e)`.
    The C++ tail `left_length < right_length | (orEqual & left_length == right_length)`
    compares the *total* lengths; after the same number of units was consumed on both sides
    that is the comparison of the remaining lengths, which is what the list recursion does.
* `Str.*` — the operator families of `String` (String.hpp:160-208) and `StringView`
  (StringView.hpp:98-144): six operators, each a one-line wrapper.  Both families are the same
  text, so one model serves both; the harness runs both.
* `JVal`, `Val.*` — `Value::operator<, >, <=, >=, ==` (Value.hpp:641-874).
  A value is reduced to what the comparisons read: the kind, the size of a container, the
  string, the number.  A `double` is represented by `Option Int`: `none` is NaN, `some k` is
  the monotone key of the bit pattern (sign-magnitude → two's-complement order, −0 and +0 both
  0), so IEEE `<`/`==` on non-NaN doubles is `<`/`==` on keys; every comparison with NaN is
  false except `!=`.  `ptr v` is `ValueType::ValuePtr` pointing at `v`.
  Kind ranks are the numeric values of `enum ValueType` (Value.hpp:34-46), re-extracted into
  `Qentem.Generated.Order` on every run and proved equal to `rank` in `Props/C15.lean`.
  Since 73c896c a pointer operand is dereferenced on either side (`derefRight`); before, only
  the left one was, which broke duality (`notes/fix-value-compare-deref-right.diff`).
-/
namespace Qentem.Order

/-! ### StringUtils -/

/-- `IsLess(left, right, left_length, right_length, orEqual)` on list suffixes. -/
def isLess : List Nat → List Nat → Bool → Bool
  | a :: as, b :: bs, e =>
    if a > b then false
    else if a < b then true
    else isLess as bs e
  | l, r, e => (l.length < r.length) || (e && l.length == r.length)

/-- `IsGreater(left, right, left_length, right_length, orEqual)` on list suffixes. -/
def isGreater : List Nat → List Nat → Bool → Bool
  | a :: as, b :: bs, e =>
    if a < b then false
    else if a > b then true
    else isGreater as bs e
  | l, r, e => (l.length > r.length) || (e && l.length == r.length)

/-- Cursor model of `IsLess`: `none` is a read outside `left`/`right`. -/
def isLessA (left right : Array Nat) (ll rl : Nat) (e : Bool) (offset : Nat) : Option Bool :=
  if ll > offset && rl > offset then
    match left[offset]?, right[offset]? with
    | some a, some b =>
      if a > b then some false
      else if a < b then some true
      else isLessA left right ll rl e (offset + 1)
    | _, _ => none
  else some ((ll < rl) || (e && ll == rl))
termination_by ll - offset
decreasing_by simp_all; omega

/-- Cursor model of `IsGreater`. -/
def isGreaterA (left right : Array Nat) (ll rl : Nat) (e : Bool) (offset : Nat) : Option Bool :=
  if ll > offset && rl > offset then
    match left[offset]?, right[offset]? with
    | some a, some b =>
      if a < b then some false
      else if a > b then some true
      else isGreaterA left right ll rl e (offset + 1)
    | _, _ => none
  else some ((ll > rl) || (e && ll == rl))
termination_by ll - offset
decreasing_by simp_all; omega

/-- Cursor model of `IsEqual(left, right, length)`: `none` is a read outside an array. -/
def isEqualA (left right : Array Nat) (length : Nat) (offset : Nat) : Option Bool :=
  if length > offset then
    match left[offset]?, right[offset]? with
    | some a, some b => if a == b then isEqualA left right length (offset + 1) else some (length == offset)
    | _, _ => none
  else some (length == offset)
termination_by length - offset
decreasing_by simp_all; omega

/-- `IsEqual` on list suffixes with `n` units still to compare; `none` = a list ran out. -/
def isEqualN : List Nat → List Nat → Nat → Option Bool
  | _, _, 0 => some true
  | a :: as, b :: bs, n + 1 => if a == b then isEqualN as bs n else some false
  | _, _, _ + 1 => none

/-! ### String / StringView operator families -/
namespace Str

/-- `operator==`: `(Length() == s.Length()) && IsEqual(First(), s.First(), Length())`. -/
def eq (a b : List Nat) : Bool := a.length == b.length && isEqualN a b a.length == some true
def ne (a b : List Nat) : Bool := !(eq a b)
def lt (a b : List Nat) : Bool := isLess a b false
def le (a b : List Nat) : Bool := isLess a b true
def gt (a b : List Nat) : Bool := isGreater a b false
def ge (a b : List Nat) : Bool := isGreater a b true

end Str

/-! ### Value -/

/-- What `Value`'s comparison operators read of a value. -/
inductive JVal where
  | undefined
  | ptr (target : JVal)
  | obj (size : Nat)
  | arr (size : Nat)
  | str (s : List Nat)
  | nat (n : Nat)
  | int (i : Int)
  | real (key : Option Int)
  | tru
  | fls
  | null
  deriving Repr, DecidableEq, Inhabited

/-- Numeric value of `ValueType` (Value.hpp:34-46). -/
def rank : JVal → Nat
  | .undefined => 0
  | .ptr _ => 1
  | .obj _ => 2
  | .arr _ => 3
  | .str _ => 4
  | .nat _ => 5
  | .int _ => 6
  | .real _ => 7
  | .tru => 8
  | .fls => 9
  | .null => 10

/-- `double < double` on keys; any NaN operand gives false. -/
def realLt : Option Int → Option Int → Bool
  | some a, some b => a < b
  | _, _ => false
def realLe : Option Int → Option Int → Bool
  | some a, some b => a ≤ b
  | _, _ => false
def realEq : Option Int → Option Int → Bool
  | some a, some b => a == b
  | _, _ => false

/-! The comparisons once no operand is a pointer (Value.hpp:641-686 etc.): same kind → by
    content, otherwise by kind rank.  (The pointer arms are unreachable from `Val.*`.) -/
namespace Base

def lt : JVal → JVal → Bool
  | .obj a, .obj b => a < b
  | .arr a, .arr b => a < b
  | .str a, .str b => Str.lt a b
  | .nat a, .nat b => a < b
  | .int a, .int b => a < b
  | .real a, .real b => realLt a b
  | .tru, .tru => false
  | .fls, .fls => false
  | .null, .null => false
  | .undefined, .undefined => false
  | a, b => rank a < rank b

def gt : JVal → JVal → Bool
  | .obj a, .obj b => a > b
  | .arr a, .arr b => a > b
  | .str a, .str b => Str.gt a b
  | .nat a, .nat b => a > b
  | .int a, .int b => a > b
  | .real a, .real b => realLt b a
  | .tru, .tru => false
  | .fls, .fls => false
  | .null, .null => false
  | .undefined, .undefined => false
  | a, b => rank a > rank b

/-- across kinds `<=` is the *strict* rank comparison -/
def le : JVal → JVal → Bool
  | .obj a, .obj b => a ≤ b
  | .arr a, .arr b => a ≤ b
  | .str a, .str b => Str.le a b
  | .nat a, .nat b => a ≤ b
  | .int a, .int b => a ≤ b
  | .real a, .real b => realLe a b
  | .tru, .tru => true
  | .fls, .fls => true
  | .null, .null => true
  | .undefined, .undefined => true
  | a, b => rank a < rank b

def ge : JVal → JVal → Bool
  | .obj a, .obj b => a ≥ b
  | .arr a, .arr b => a ≥ b
  | .str a, .str b => Str.ge a b
  | .nat a, .nat b => a ≥ b
  | .int a, .int b => a ≥ b
  | .real a, .real b => realLe b a
  | .tru, .tru => true
  | .fls, .fls => true
  | .null, .null => true
  | .undefined, .undefined => true
  | a, b => rank a > rank b

/-- false across kinds -/
def eq : JVal → JVal → Bool
  | .obj a, .obj b => a == b
  | .arr a, .arr b => a == b
  | .str a, .str b => Str.eq a b
  | .nat a, .nat b => a == b
  | .int a, .int b => a == b
  | .real a, .real b => realEq a b
  | .tru, .tru => true
  | .fls, .fls => true
  | .null, .null => true
  | .undefined, .undefined => true
  | _, _ => false

end Base

/-- `if (val.Type() == ValueType::ValuePtr) return (*this OP *(val.value_));` with a left operand
    that is not a pointer: the right operand is dereferenced until it is not a pointer (each step
    re-enters the operator with the same left operand). -/
def derefRight (f : JVal → JVal → Bool) (a : JVal) : JVal → Bool
  | .ptr b => derefRight f a b
  | b => f a b

namespace Val

/-- `Value::operator<` (Value.hpp, after 73c896c).  Both pointers: compare the targets; left
    operand a pointer: dereference it; right operand a pointer: dereference it; otherwise same
    kind by content / different kinds by rank. -/
def lt : JVal → JVal → Bool
  | .ptr a, .ptr b => lt a b
  | .ptr a, b => lt a b
  | a, b => derefRight Base.lt a b

/-- `Value::operator>`. -/
def gt : JVal → JVal → Bool
  | .ptr a, .ptr b => gt a b
  | .ptr a, b => gt a b
  | a, b => derefRight Base.gt a b

/-- `Value::operator<=`. -/
def le : JVal → JVal → Bool
  | .ptr a, .ptr b => le a b
  | .ptr a, b => le a b
  | a, b => derefRight Base.le a b

/-- `Value::operator>=`. -/
def ge : JVal → JVal → Bool
  | .ptr a, .ptr b => ge a b
  | .ptr a, b => ge a b
  | a, b => derefRight Base.ge a b

/-- `Value::operator==`. -/
def eq : JVal → JVal → Bool
  | .ptr a, .ptr b => eq a b
  | .ptr a, b => eq a b
  | a, b => derefRight Base.eq a b

end Val

/-- Number of pointer layers around a value. -/
def depth : JVal → Nat
  | .ptr v => depth v + 1
  | _ => 0

/-- The value behind every pointer layer. -/
def strip : JVal → JVal
  | .ptr v => strip v
  | v => v

/-- No NaN anywhere the comparisons can reach. -/
def noNaN : JVal → Bool
  | .ptr v => noNaN v
  | .real none => false
  | _ => true

/-! ### The order axioms as executable predicates (the S3 oracle evaluates these on what the
C++ operators returned; the theorems are about the same definitions). -/

/-- The six observed operator results for one ordered pair `(a, b)`. -/
structure Obs where
  lt : Bool
  le : Bool
  gt : Bool
  ge : Bool
  eq : Bool
  deriving Repr, DecidableEq

/-- Exactly one of `<`, `==`, `>`; `<=` and `>=` are the unions. -/
def Obs.consistent (o : Obs) : Bool :=
  ((o.lt && !o.eq && !o.gt) || (!o.lt && o.eq && !o.gt) || (!o.lt && !o.eq && o.gt)) &&
  (o.le == (o.lt || o.eq)) && (o.ge == (o.gt || o.eq))

/-- Duality between the results for `(a, b)` and `(b, a)`. -/
def Obs.dual (ab ba : Obs) : Bool :=
  (ab.lt == ba.gt) && (ab.gt == ba.lt) && (ab.le == ba.ge) && (ab.ge == ba.le) && (ab.eq == ba.eq)

/-- Transitivity instance for `(a,b)`, `(b,c)`, `(a,c)`: of `<`, of `==`, and the mixed ones. -/
def Obs.trans (ab bc ac : Obs) : Bool :=
  (!(ab.lt && bc.lt) || ac.lt) && (!(ab.eq && bc.eq) || ac.eq) &&
  (!(ab.lt && bc.eq) || ac.lt) && (!(ab.eq && bc.lt) || ac.lt) &&
  (!(ab.le && bc.le) || ac.le)

/-- Reference lexicographic order on code-unit strings (the specification side):
    first differing unit decides, a proper prefix is smaller. -/
def lexLt : List Nat → List Nat → Bool
  | [], [] => false
  | [], _ :: _ => true
  | _ :: _, [] => false
  | a :: as, b :: bs => a < b || (a == b && lexLt as bs)

def obsStr (a b : List Nat) : Obs :=
  { lt := Str.lt a b, le := Str.le a b, gt := Str.gt a b, ge := Str.ge a b, eq := Str.eq a b }

def obsVal (a b : JVal) : Obs :=
  { lt := Val.lt a b, le := Val.le a b, gt := Val.gt a b, ge := Val.ge a b, eq := Val.eq a b }

end Qentem.Order
