import Qentem.Model.Value
import Qentem.Model.ValueOps
import Qentem.Model.Ledger
/-
Allocation-trace semantics of `Qentem::Value` (C16).

`LDoc` is the document of `Model/Value.lean` with the heap blocks each node owns:
* a string owns its character block when it has storage (`String::copyString` allocates `len + 1` units,
  so every string built from text has one, also the empty one; a reset / moved-from / `ValueType::String`
  string has none);
* an array owns its item block when `Capacity() > 0` (the capacity is tracked here: it decides when
  `Array::operator+=` / `Resize` / `Compress` reallocate);
* an object owns its table block when `Capacity() > 0` and one key block per live item (`Key_T{key, length}`
  always allocates); a removed item owns nothing (`HAItem_T::Clear`).
Events carry ids only (size 0).  Ids number the allocations from `1` in order, as harness/ledger.hpp does.

Every operation is a computation in `LM` (fresh-id counter in, events out) that follows the order of the
code where that is cheap: `reset()` (post-order release of the old content: items in slot order, for an
item its value then its key, then the container's own block) before the new content is built, a growing
table / array allocates the new block before it releases the old one, copies allocate the container block
then the members in order (key, then value), a moving merge releases the source keys it does not adopt and
finally the source table.  Where the real order inside one operation differs (e.g. copy construction into
a temporary followed by move assignment releases the old content *after* the copy was built) the multiset
of events of the operation is the same; the check compares the number of allocations and of releases per
line (`checks/_value_ledger.py`), and every real trace is judged by `Ledger.run` itself.

Caller temporaries are part of the real trace: a key passed as an owned `String` (`KV.moved`: adopted by a
new member, released otherwise), a key passed as a named `const String` (`KV.constCopy`), a string payload
passed through a named `String` (`tmp` = number of such blocks, allocated before and released after the
call).  `GroupBy` is not part of this op set (its scratch `StringStream` belongs to the flat containers).
No proofs in this file.
-/
namespace Qentem.ValueLedger
open Qentem.Value Qentem.Ledger

inductive LDoc where
  | undef | null | tru | fls
  | nat (n : Nat)
  | int (i : Int)
  | real (bits : Nat)
  | ptr (root : Nat)
  | str (blk : Option Nat) (s : List Nat)
  | arr (blk : Option Nat) (cap : Nat) (items : List LDoc)
  | obj (blk : Option Nat) (cap : Nat) (slots : List (Option (Nat × List Nat × LDoc)))
  deriving Repr, Inhabited

abbrev LSlot := Option (Nat × List Nat × LDoc)
abbrev LEnv := List LDoc

/-! ### the trace monad -/

abbrev LM (α : Type) := Nat → α × List Ev × Nat

def LM.pure {α : Type} (a : α) : LM α := fun n => (a, [], n)

def LM.bind {α β : Type} (m : LM α) (f : α → LM β) : LM β := fun n =>
  let r := m n
  let r2 := f r.1 r.2.2
  (r2.1, r.2.1 ++ r2.2.1, r2.2.2)

instance : Monad LM where
  pure := LM.pure
  bind := LM.bind

/-- `Memory::Allocate`. -/
def allocB : LM Nat := fun n => (n, [Ev.alloc n 0], n + 1)

/-- `Memory::Deallocate` of a non-null pointer. -/
def freeB (id : Nat) : LM Unit := fun n => ((), [Ev.free id], n)

/-- `Memory::Deallocate(ptr)`: no event for a null pointer. -/
def freeOpt (b : Option Nat) : LM Unit :=
  match b with
  | some id => freeB id
  | none => LM.pure ()

/-- release a list of blocks in order. -/
def freeAll (ids : List Nat) : LM Unit := fun n => ((), ids.map Ev.free, n)

/-- `k` caller temporaries (named `String` objects): allocated before the call. -/
def allocTmp : Nat → LM (List Nat)
  | 0 => LM.pure []
  | k + 1 => LM.bind allocB (fun b => LM.bind (allocTmp k) (fun r => LM.pure (b :: r)))

/-! ### what a value owns, in destructor order -/

def optId (b : Option Nat) : List Nat :=
  match b with
  | some id => [id]
  | none => []

mutual
/-- blocks of a value in the order `~Value` releases them. -/
def owned : LDoc → List Nat
  | .str b _ => optId b
  | .arr b _ items => ownedItems items ++ optId b
  | .obj b _ slots => ownedSlots slots ++ optId b
  | _ => []
def ownedItems : List LDoc → List Nat
  | [] => []
  | d :: r => owned d ++ ownedItems r
def ownedSlots : List LSlot → List Nat
  | [] => []
  | none :: r => ownedSlots r
  | some (kid, _, v) :: r => owned v ++ kid :: ownedSlots r
end

def ownedEnv (env : LEnv) : List Nat := ownedItems env

/-- `~Value` / `reset()`: post-order release. -/
def dispose (d : LDoc) : LM Unit := freeAll (owned d)

/-! ### erasure to the value model -/

mutual
def erase : LDoc → Doc
  | .undef => Doc.undef | .null => Doc.null | .tru => Doc.tru | .fls => Doc.fls
  | .nat n => Doc.nat n | .int i => Doc.int i | .real b => Doc.real b | .ptr r => Doc.ptr r
  | .str _ s => Doc.str s
  | .arr _ _ items => Doc.arr (eraseItems items)
  | .obj _ c slots => Doc.obj c (eraseSlots slots)
def eraseItems : List LDoc → List Doc
  | [] => []
  | d :: r => erase d :: eraseItems r
def eraseSlots : List LSlot → List Slot
  | [] => []
  | none :: r => none :: eraseSlots r
  | some (_, k, v) :: r => some (k, erase v) :: eraseSlots r
end

def LDoc.isUndef : LDoc → Bool
  | .undef => true
  | _ => false

/-! ### deep copy (`copyValue`: container block, then the members in order: key, value) -/

mutual
def copyL : LDoc → LM LDoc
  | .str _ s => LM.bind allocB (fun b => LM.pure (.str (some b) s))
  | .arr _ _ items =>
      match items with
      | [] => LM.pure (.arr none 0 [])
      | _ :: _ => LM.bind allocB (fun b => LM.bind (copyItemsL items) (fun its => LM.pure (.arr (some b) items.length its)))
  | .obj _ _ slots =>
      match slots with
      | [] => LM.pure (.obj none 0 [])
      | _ :: _ => LM.bind allocB (fun b => LM.bind (copySlotsL slots) (fun sl => LM.pure (.obj (some b) (allocCap slots.length) sl)))
  | d => LM.pure d
def copyItemsL : List LDoc → LM (List LDoc)
  | [] => LM.pure []
  | d :: r => LM.bind (copyL d) (fun d' => LM.bind (copyItemsL r) (fun r' => LM.pure (d' :: r')))
def copySlotsL : List LSlot → LM (List LSlot)
  | [] => LM.pure []
  | none :: r => copySlotsL r
  | some (_, k, v) :: r =>
      LM.bind allocB (fun kid => LM.bind (copyL v) (fun v' => LM.bind (copySlotsL r) (fun r' => LM.pure (some (kid, k, v') :: r'))))
end

/-! ### tables and arrays -/

def liveSlotsL : List LSlot → List LSlot
  | [] => []
  | none :: r => liveSlotsL r
  | some e :: r => some e :: liveSlotsL r

def liveCountL : List LSlot → Nat
  | [] => 0
  | none :: r => liveCountL r
  | some _ :: r => liveCountL r + 1

/-- `resize(n)`: new table block, live items moved, old block released. -/
def tableResize (b : Option Nat) (slots : List LSlot) (n : Nat) : LM (Option Nat × Nat × List LSlot) :=
  LM.bind allocB (fun nb => LM.bind (freeOpt b) (fun _ => LM.pure (some nb, allocCap n, liveSlotsL slots)))

/-- `if (Size() == Capacity()) expand();` -/
def tableExpandIfFull (b : Option Nat) (c : Nat) (slots : List LSlot) : LM (Option Nat × Nat × List LSlot) :=
  if slots.length = c then tableResize b slots (((if c = 0 then 1 else 0) + c) * 2) else LM.pure (b, c, slots)

/-- `Array::resize(n)`: new item block, old block released. -/
def arrayRealloc (b : Option Nat) (n : Nat) : LM (Option Nat × Nat) :=
  LM.bind allocB (fun nb => LM.bind (freeOpt b) (fun _ => LM.pure (some nb, n)))

/-- `if (Size() == Capacity()) resize((Capacity() | (Capacity() == 0)) * 2);` -/
def arrayGrowIfFull (b : Option Nat) (c size : Nat) : LM (Option Nat × Nat) :=
  if size = c then arrayRealloc b ((if c = 0 then 1 else c) * 2) else LM.pure (b, c)

/-- how the caller passes a key to a subscript. -/
inductive KV where
  | plain      -- pointer + length, `const Char_T*`, `StringView`: the table builds the key when it is new
  | moved      -- an owned `String&&`: adopted by a new member, released otherwise
  | constCopy  -- a named `const String&`: copied by the table when new; the named string is released after the call
  deriving Repr, Inhabited, DecidableEq

/-- find-or-insert in the item storage, then `f` on the member's value. `newKey` yields the block of a
new member's key, `found` is what happens to the caller's key when the member exists. -/
def slotUpdL (k : List Nat) (newKey : LM Nat) (found : LM Unit) (f : LDoc → LM LDoc) : List LSlot → LM (List LSlot)
  | [] => LM.bind newKey (fun kid => LM.bind (f .undef) (fun v => LM.pure [some (kid, k, v)]))
  | none :: r => LM.bind (slotUpdL k newKey found f r) (fun r' => LM.pure (none :: r'))
  | some (kid, k', v) :: r =>
      if k' = k then LM.bind found (fun _ => LM.bind (f v) (fun v' => LM.pure (some (kid, k', v') :: r)))
      else LM.bind (slotUpdL k newKey found f r) (fun r' => LM.pure (some (kid, k', v) :: r'))

/-- the caller's key object, once built. -/
inductive CKey where
  | plain
  | moved (t : Nat)
  | constCopy (t : Nat)
  deriving Repr, Inhabited

def CKey.ids : CKey → List Nat
  | .plain => []
  | .moved t => [t]
  | .constCopy t => [t]

/-- building the caller's key (`String{ptr, len}` allocates). -/
def callerKey (kv : KV) : LM CKey :=
  match kv with
  | .plain => LM.pure .plain
  | .moved => LM.bind allocB (fun t => LM.pure (.moved t))
  | .constCopy => LM.bind allocB (fun t => LM.pure (.constCopy t))

/-- the key block of a new member. -/
def newKeyOf (ck : CKey) : LM Nat :=
  match ck with
  | .plain => allocB
  | .moved t => LM.pure t
  | .constCopy t => LM.bind allocB (fun kid => LM.bind (freeB t) (fun _ => LM.pure kid))

/-- what happens to the caller's key when the member exists. -/
def foundOf (ck : CKey) : LM Unit :=
  match ck with
  | .plain => LM.pure ()
  | .moved t => freeB t
  | .constCopy t => freeB t

/-- `operator[](key)` / `Get` / `Insert` followed by `f` on the reference. -/
def updKeyL (k : List Nat) (kv : KV) (f : LDoc → LM LDoc) (d : LDoc) : LM LDoc :=
  LM.bind (callerKey kv) (fun ck =>
  LM.bind (match d with
           | .obj b c s => LM.pure (b, c, s)
           | _ => LM.bind (dispose d) (fun _ => LM.pure (none, 0, []))) (fun o =>
  LM.bind (tableExpandIfFull o.1 o.2.1 o.2.2) (fun e =>
  LM.bind (slotUpdL k (newKeyOf ck) (foundOf ck) f e.2.2) (fun s' => LM.pure (.obj e.1 e.2.1 s')))))

def setAtIdxL (i : Nat) (f : LDoc → LM LDoc) : List LDoc → LM (List LDoc)
  | [] => LM.pure []
  | d :: r =>
    match i with
    | 0 => LM.bind (f d) (fun d' => LM.pure (d' :: r))
    | i + 1 => LM.bind (setAtIdxL i f r) (fun r' => LM.pure (d :: r'))

/-- a value that is not (or no longer) a container becomes an array reaching `index`. -/
def freshIdx (i : Nat) (f : LDoc → LM LDoc) : LM LDoc :=
  LM.bind allocB (fun nb => LM.bind (f .undef) (fun v =>
    LM.pure (.arr (some nb) (if i = 0 then 2 else i + 1) (List.replicate i .undef ++ [v]))))

/-- `operator[](SizeT index)` followed by `f` on the reference. -/
def updIdxL (i : Nat) (f : LDoc → LM LDoc) (d : LDoc) : LM LDoc :=
  match d with
  | .arr b c items =>
      if i < items.length then LM.bind (setAtIdxL i f items) (fun its => LM.pure (.arr b c its))
      else if items.length = i then
        LM.bind (arrayGrowIfFull b c items.length) (fun g => LM.bind (f .undef) (fun v => LM.pure (.arr g.1 g.2 (items ++ [v]))))
      else
        LM.bind (arrayRealloc b (i + 1)) (fun g => LM.bind (f .undef) (fun v =>
          LM.pure (.arr g.1 g.2 (items ++ List.replicate (i - items.length) .undef ++ [v]))))
  | .obj b c s =>
      match s[i]? with
      | some (some (kid, k, v)) => LM.bind (f v) (fun v' => LM.pure (.obj b c (s.set i (some (kid, k, v')))))
      | _ => LM.bind (dispose d) (fun _ => freshIdx i f)
  | _ => LM.bind (dispose d) (fun _ => freshIdx i f)

inductive LSel where
  | key (k : List Nat) (kv : KV)
  | idx (i : Nat)
  deriving Repr, Inhabited

def updPathL : List LSel → (LDoc → LM LDoc) → LDoc → LM LDoc
  | [], f, d => f d
  | LSel.key k kv :: p, f, d => updKeyL k kv (updPathL p f) d
  | LSel.idx i :: p, f, d => updIdxL i (updPathL p f) d

/-! ### leaf actions on a reference -/

/-- `reset()` then the new content. -/
def replaceBy (x : LDoc) (v : LDoc) : LM LDoc := LM.bind (dispose v) (fun _ => LM.pure x)

/-- `reset()` then a copy of `x` (`operator=(const Value&)`). -/
def replaceByCopy (x : LDoc) (v : LDoc) : LM LDoc :=
  LM.bind (dispose v) (fun _ => copyL x)

def asArrL (v : LDoc) : LM (Option Nat × Nat × List LDoc) :=
  match v with
  | .arr b c items => LM.pure (b, c, items)
  | _ => LM.bind (dispose v) (fun _ => LM.pure (none, 0, []))

/-- `array_ += item` after "if not an array: reset, become an array". -/
def pushL (x : LDoc) (v : LDoc) : LM LDoc :=
  LM.bind (asArrL v) (fun a => LM.bind (arrayGrowIfFull a.1 a.2.1 a.2.2.length) (fun g =>
    LM.pure (.arr g.1 g.2 (a.2.2 ++ [x]))))

/-- `HArray::operator+=` loop over the source items; `cp = true`: copying overload. Returns the new item
storage of the target. -/
def mergeSlotsL (cp : Bool) : List LSlot → List LSlot → LM (List LSlot)
  | [], acc => LM.pure acc
  | none :: r, acc => mergeSlotsL cp r acc
  | some (kid, k, v) :: r, acc =>
      if cp then
        LM.bind (slotUpdL k allocB (LM.pure ()) (fun old => LM.bind (dispose old) (fun _ => copyL v)) acc)
          (fun acc' => mergeSlotsL cp r acc')
      else
        LM.bind (slotUpdL k (LM.pure kid) (freeB kid) (fun old => LM.bind (dispose old) (fun _ => LM.pure v)) acc)
          (fun acc' => mergeSlotsL cp r acc')

/-- `object_ += src` (the moving overload finally releases the source table). -/
def objMergeL (cp : Bool) (b : Option Nat) (c : Nat) (s : List LSlot) (sb : Option Nat) (src : List LSlot) : LM LDoc :=
  LM.bind (if s.length + src.length > c then tableResize b s (s.length + src.length) else LM.pure (b, c, s)) (fun t =>
  LM.bind (mergeSlotsL cp src t.2.2) (fun s' =>
  LM.bind (if cp then LM.pure () else freeOpt sb) (fun _ => LM.pure (.obj t.1 t.2.1 s'))))

/-- `operator+=(Value&&)` / `operator+=(const Value&)`. -/
def addValueL (cp : Bool) (x : LDoc) (v : LDoc) : LM LDoc :=
  match v, x with
  | .obj b c s, .obj sb _ src => objMergeL cp b c s sb src
  | _, _ => if cp then LM.bind (copyL x) (fun x' => pushL x' v) else pushL x v

/-- `operator+=(ObjectT&&)` with an object the caller built (a copy of the source's). -/
def addObjL (x : LDoc) (v : LDoc) : LM LDoc :=
  match v, x with
  | .obj b c s, .obj sb _ src => objMergeL false b c s sb src
  | _, _ => pushL x v

/-- push every item of `xs` (`Merge`'s loop). -/
def pushAllL : List LDoc → LDoc → LM LDoc
  | [], v => LM.pure v
  | x :: r, v => LM.bind (pushL x v) (fun v' => pushAllL r v')

/-- `Array::operator+=(Array&&)`: adopt the block when the target has none, else grow to fit, take the
items over and release the source block. -/
def arrConcatL (sb : Option Nat) (sc : Nat) (xs : List LDoc) (v : LDoc) : LM LDoc :=
  LM.bind (asArrL v) (fun a =>
    -- `Capacity() == 0`: the target has no block and no items (the two no-ops below say so unconditionally)
    if a.2.1 = 0 then LM.bind (freeOpt a.1) (fun _ => LM.pure (.arr sb sc (a.2.2 ++ xs)))
    else
      LM.bind (if a.2.2.length + xs.length > a.2.1 then arrayRealloc a.1 (a.2.2.length + xs.length) else LM.pure (a.1, a.2.1)) (fun g =>
      LM.bind (freeOpt sb) (fun _ => LM.pure (.arr g.1 g.2 (a.2.2 ++ xs)))))

/-- `operator+=(ArrayT&&)` with an array the caller built (a copy of the source's). -/
def addArrL (x : LDoc) (v : LDoc) : LM LDoc :=
  match x with
  | .arr sb sc (y :: ys) => arrConcatL sb sc (y :: ys) v
  | _ => pushL x v

def dropUndefL : List LDoc → List LDoc
  | [] => []
  | .undef :: r => dropUndefL r
  | d :: r => d :: dropUndefL r

/-- `if (isUndefined()) setTypeToArray();` -/
def vivArr (v : LDoc) : LDoc :=
  match v with
  | .undef => .arr none 0 []
  | _ => v

def mergeCoreL (cp : Bool) (x : LDoc) (v1 : LDoc) : LM LDoc :=
  match v1, x with
  | .arr _ _ _, .arr sb _ xs =>
      if cp then LM.bind (copyItemsL (dropUndefL xs)) (fun ys => pushAllL ys v1)
      else LM.bind (pushAllL (dropUndefL xs) v1) (fun r => LM.bind (freeOpt sb) (fun _ => LM.pure r))
  | .obj b c s, .obj sb _ src => objMergeL cp b c s sb src
  | _, _ => if cp then LM.pure v1 else LM.bind (dispose x) (fun _ => LM.pure v1)

/-- `Merge(Value&&)` (`cp = false`, the source is finally `Reset()`) / `Merge(const Value&)`. -/
def mergeL (cp : Bool) (x : LDoc) (v : LDoc) : LM LDoc := mergeCoreL cp x (vivArr v)

def slotRemoveL (k : List Nat) : List LSlot → LM (List LSlot)
  | [] => LM.pure []
  | none :: r => LM.bind (slotRemoveL k r) (fun r' => LM.pure (none :: r'))
  | some (kid, k', v) :: r =>
      if k' = k then LM.bind (dispose v) (fun _ => LM.bind (freeB kid) (fun _ => LM.pure (none :: r)))
      else LM.bind (slotRemoveL k r) (fun r' => LM.pure (some (kid, k', v) :: r'))

def removeKeyL (k : List Nat) (v : LDoc) : LM LDoc :=
  match v with
  | .obj b c s => LM.bind (slotRemoveL k s) (fun s' => LM.pure (.obj b c s'))
  | _ => LM.pure v

def removeIdxL (i : Nat) (v : LDoc) : LM LDoc :=
  match v with
  | .obj b c s =>
      match s[i]? with
      | some (some (kid, _, x)) => LM.bind (dispose x) (fun _ => LM.bind (freeB kid) (fun _ => LM.pure (.obj b c (s.set i none))))
      | _ => LM.pure v
  | .arr b c items =>
      if i < items.length then LM.bind (setAtIdxL i (replaceBy .undef) items) (fun its => LM.pure (.arr b c its))
      else LM.pure v
  | _ => LM.pure v

/-- `reset()` with the kind kept (`SetPointerToValue(nullptr)`). -/
def resetPayloadL (v : LDoc) : LM LDoc :=
  match v with
  | .obj _ _ _ => LM.bind (dispose v) (fun _ => LM.pure (.obj none 0 []))
  | .arr _ _ _ => LM.bind (dispose v) (fun _ => LM.pure (.arr none 0 []))
  | .str _ _ => LM.bind (dispose v) (fun _ => LM.pure (.str none []))
  | .nat _ => LM.pure (.nat 0)
  | .int _ => LM.pure (.int 0)
  | .real _ => LM.pure (.real 0)
  | d => LM.pure d

def emptyOfKind (k : Nat) : Option LDoc :=
  match k with
  | 0 => some .undef | 2 => some (.obj none 0 []) | 3 => some (.arr none 0 []) | 4 => some (.str none [])
  | 5 => some (.nat 0) | 6 => some (.int 0) | 7 => some (.real 0) | 8 => some .tru | 9 => some .fls
  | 10 => some .null
  | _ => none

/-- `Value{ValueType::Object, n}` / `Value{ValueType::Array, n}`: an empty container that owns a block when
`n ≠ 0` (`Size() == 0`, `Capacity() != 0`). -/
def reserveL (k n : Nat) : LM (Option LDoc) :=
  match k with
  | 2 => if n = 0 then LM.pure (some (.obj none 0 [])) else LM.bind allocB (fun b => LM.pure (some (.obj (some b) (allocCap n) [])))
  | 3 => if n = 0 then LM.pure (some (.arr none 0 [])) else LM.bind allocB (fun b => LM.pure (some (.arr (some b) n [])))
  | _ => LM.pure none

/-- `GetObject()->Clear()` / `GetArray()->Clear()`: the items are disposed, block and capacity stay. -/
def clearL (v : LDoc) : LM LDoc :=
  match v with
  | .obj b c s => LM.bind (freeAll (ownedSlots s)) (fun _ => LM.pure (.obj b c []))
  | .arr b c items => LM.bind (freeAll (ownedItems items)) (fun _ => LM.pure (.arr b c []))
  | d => LM.pure d

mutual
/-- `Compress()`. -/
def compressL : LDoc → LM LDoc
  | .arr b c items =>
      let live := dropUndefL items
      LM.bind (if live.length = c then LM.pure (b, c)
               else if live.length = 0 then LM.bind (freeOpt b) (fun _ => LM.pure (none, 0))
               else arrayRealloc b live.length) (fun g =>
      LM.bind (compressItemsL items) (fun its => LM.pure (.arr g.1 g.2 its)))
  | .obj b c slots =>
      LM.bind (if liveCountL slots = 0 then LM.bind (freeOpt b) (fun _ => LM.pure (none, 0))
               else if liveCountL slots < slots.length then
                 LM.bind allocB (fun nb => LM.bind (freeOpt b) (fun _ => LM.pure (some nb, allocCap (liveCountL slots))))
               else LM.pure (b, c)) (fun g =>
      LM.bind (compressSlotsL slots) (fun sl => LM.pure (.obj g.1 g.2 sl)))
  | d => LM.pure d
def compressItemsL : List LDoc → LM (List LDoc)
  | [] => LM.pure []
  | .undef :: r => compressItemsL r
  | d :: r => LM.bind (compressL d) (fun d' => LM.bind (compressItemsL r) (fun r' => LM.pure (d' :: r')))
def compressSlotsL : List LSlot → LM (List LSlot)
  | [] => LM.pure []
  | none :: r => compressSlotsL r
  | some (kid, k, v) :: r =>
      LM.bind (compressL v) (fun v' => LM.bind (compressSlotsL r) (fun r' => LM.pure (some (kid, k, v') :: r')))
end

/-! ### navigation without vivification (`GetValue` chains that do not cross a pointer) -/

def slotFindL (k : List Nat) : List LSlot → Option LDoc
  | [] => none
  | none :: r => slotFindL k r
  | some (_, k', v) :: r => if k' = k then some v else slotFindL k r

def nonUndefL (d : LDoc) : Option LDoc := if d.isUndef then none else some d

def childAtL (d : LDoc) : Sel → Option LDoc
  | Sel.key k =>
    match d with
    | .obj _ _ s => (slotFindL k s).bind nonUndefL
    | .arr _ _ items => (arrayKeyIndex k).bind (fun i => (items[i]?).bind nonUndefL)
    | _ => none
  | Sel.idx i =>
    match d with
    | .obj _ _ s =>
      match s[i]? with
      | some (some (_, _, v)) => nonUndefL v
      | _ => none
    | .arr _ _ items => (items[i]?).bind nonUndefL
    | _ => none

def getAtL : LDoc → List Sel → Option LDoc
  | d, [] => some d
  | d, s :: p =>
    match childAtL d s with
    | some c => getAtL c p
    | none => none

def slotSetValL (k : List Nat) (x : LDoc) : List LSlot → List LSlot
  | [] => []
  | none :: r => none :: slotSetValL k x r
  | some (kid, k', v) :: r => if k' = k then some (kid, k', x) :: r else some (kid, k', v) :: slotSetValL k x r

def setIdxPure (i : Nat) (x : LDoc) : List LDoc → List LDoc
  | [] => []
  | d :: r =>
    match i with
    | 0 => x :: r
    | i + 1 => d :: setIdxPure i x r

def setChildL (d : LDoc) (s : Sel) (x : LDoc) : LDoc :=
  match d, s with
  | .obj b c sl, Sel.key k => .obj b c (slotSetValL k x sl)
  | .obj b c sl, Sel.idx i =>
      match sl[i]? with
      | some (some (kid, k, _)) => .obj b c (sl.set i (some (kid, k, x)))
      | _ => d
  | .arr b c items, Sel.key k =>
      match arrayKeyIndex k with
      | some i => .arr b c (setIdxPure i x items)
      | none => d
  | .arr b c items, Sel.idx i => .arr b c (setIdxPure i x items)
  | _, _ => d

/-- the document with the member found along the path replaced by `x`. -/
def putAtL : LDoc → List Sel → LDoc → LDoc
  | _, [], x => x
  | d, s :: p, x =>
    match childAtL d s with
    | some c => setChildL d s (putAtL c p x)
    | none => d

/-! ### operations over the forest -/

structure LLoc where
  root : Nat
  path : List LSel
  deriving Repr, Inhabited

structure SLoc where
  root : Nat
  path : List Sel
  deriving Repr, Inhabited

/-- a scalar / string operand of an assignment or append: built by the caller (`Value{…}`, `String{…}`). -/
def mkPayload (x : Doc) : LM LDoc :=
  match x with
  | Doc.null => LM.pure .null | Doc.tru => LM.pure .tru | Doc.fls => LM.pure .fls
  | Doc.nat n => LM.pure (.nat n) | Doc.int i => LM.pure (.int i) | Doc.real b => LM.pure (.real b)
  | Doc.str s => LM.bind allocB (fun b => LM.pure (.str (some b) s))
  | _ => LM.pure .undef

inductive LOp where
  | assign (t : LLoc) (x : Doc) (tmp : Nat)
  | touch (t : LLoc)
  | setType (t : LLoc) (k : Nat)
  | copy (t : LLoc) (s : SLoc)
  | move (t : LLoc) (s : SLoc)
  | assignObj (t : LLoc) (s : SLoc)
  | assignArr (t : LLoc) (s : SLoc)
  | setPtr (t : LLoc) (r : Option Nat)
  | append (t : LLoc) (x : Doc) (tmp : Nat)
  | appendMove (t : LLoc) (s : SLoc)
  | appendCopy (t : LLoc) (s : SLoc)
  | appendObj (t : LLoc) (s : SLoc)
  | appendArr (t : LLoc) (s : SLoc)
  | addPtr (t : LLoc) (r : Option Nat)
  | insert (t : LLoc) (k : List Nat) (x : Doc)
  | insertMove (t : LLoc) (k : List Nat) (s : SLoc)
  | mergeMove (t : LLoc) (s : SLoc)
  | mergeCopy (t : LLoc) (s : SLoc)
  | remove (t : LLoc) (k : List Nat) (tmp : Nat)
  | removeIdx (t : LLoc) (i : Nat)
  | reset (t : LLoc)
  | compress (t : LLoc)
  | reserve (t : LLoc) (k n : Nat)
  | clear (t : LLoc)
  deriving Repr, Inhabited

def lenvGet (env : LEnv) (r : Nat) : LDoc :=
  match env[r]? with
  | some d => d
  | none => .undef

def onTargetL (env : LEnv) (t : LLoc) (f : LDoc → LM LDoc) : LM LEnv :=
  LM.bind (updPathL t.path f (lenvGet env t.root)) (fun d => LM.pure (env.set t.root d))

def sourceL (env : LEnv) (t : LLoc) (s : SLoc) : Option LDoc :=
  if t.root = s.root then none else getAtL (lenvGet env s.root) s.path

/-- the forest with the source member taken out (it reads Undefined afterwards). -/
def takeSourceL (env : LEnv) (s : SLoc) : LEnv :=
  env.set s.root (putAtL (lenvGet env s.root) s.path .undef)

/-- run `body` between the construction and the destruction of `k` caller temporaries. -/
def withTmp {α : Type} (k : Nat) (body : LM α) : LM α :=
  LM.bind (allocTmp k) (fun ts => LM.bind body (fun a => LM.bind (freeAll ts) (fun _ => LM.pure a)))

def LOp.target : LOp → LLoc
  | .assign t _ _ | .touch t | .setType t _ | .copy t _ | .move t _ | .assignObj t _ | .assignArr t _ | .setPtr t _
  | .append t _ _ | .appendMove t _ | .appendCopy t _ | .appendObj t _ | .appendArr t _ | .addPtr t _ | .insert t _ _
  | .insertMove t _ _ | .mergeMove t _ | .mergeCopy t _ | .remove t _ _ | .removeIdx t _ | .reset t | .compress t | .reserve t _ _ | .clear t => t

/-- one operation on a target among the forest's roots. -/
def stepBody (op : LOp) (env : LEnv) : LM LEnv :=
  match op with
  | .assign t x tmp =>
      withTmp tmp (LM.bind (mkPayload x) (fun p => onTargetL env t (replaceBy p)))
  | .touch t => onTargetL env t LM.pure
  | .setType t k =>
      match emptyOfKind k with
      | some e => onTargetL env t (replaceBy e)
      | none => onTargetL env t LM.pure
  | .copy t s =>
      match sourceL env t s with
      | some x => onTargetL env t (replaceByCopy x)
      | none => LM.pure env
  | .move t s =>
      match sourceL env t s with
      | some x => onTargetL (takeSourceL env s) t (replaceBy x)
      | none => LM.pure env
  | .assignObj t s =>
      match sourceL env t s with
      | some (.obj b c sl) => LM.bind (copyL (.obj b c sl)) (fun x => onTargetL env t (replaceBy x))
      | _ => LM.pure env
  | .assignArr t s =>
      match sourceL env t s with
      | some (.arr b c items) => LM.bind (copyL (.arr b c items)) (fun x => onTargetL env t (replaceBy x))
      | _ => LM.pure env
  | .setPtr t (some r) => onTargetL env t (replaceBy (.ptr r))
  | .setPtr t none =>
      onTargetL env t (fun d => match d with
                                | .ptr r => LM.pure (.ptr r)
                                | _ => resetPayloadL d)
  | .append t x tmp => withTmp tmp (LM.bind (mkPayload x) (fun p => onTargetL env t (pushL p)))
  | .appendMove t s =>
      match sourceL env t s with
      | some x => onTargetL (takeSourceL env s) t (addValueL false x)
      | none => LM.pure env
  | .appendCopy t s =>
      match sourceL env t s with
      | some x => onTargetL env t (addValueL true x)
      | none => LM.pure env
  | .appendObj t s =>
      match sourceL env t s with
      | some (.obj b c sl) => LM.bind (copyL (.obj b c sl)) (fun x => onTargetL env t (addObjL x))
      | _ => LM.pure env
  | .appendArr t s =>
      match sourceL env t s with
      | some (.arr b c items) => LM.bind (copyL (.arr b c items)) (fun x => onTargetL env t (addArrL x))
      | _ => LM.pure env
  | .addPtr t (some r) => onTargetL env t (pushL (.ptr r))
  | .addPtr t none => onTargetL env t (pushL .undef)
  | .insert t k x =>
      LM.bind (mkPayload x) (fun p => onTargetL env t (updKeyL k KV.moved (replaceBy p)))
  | .insertMove t k s =>
      match sourceL env t s with
      | some x => onTargetL (takeSourceL env s) t (updKeyL k KV.moved (replaceBy x))
      | none => LM.pure env
  | .mergeMove t s =>
      match sourceL env t s with
      | some x => onTargetL (takeSourceL env s) t (mergeL false x)
      | none => LM.pure env
  | .mergeCopy t s =>
      match sourceL env t s with
      | some x => onTargetL env t (mergeL true x)
      | none => LM.pure env
  | .remove t k tmp => withTmp tmp (onTargetL env t (removeKeyL k))
  | .removeIdx t i => onTargetL env t (removeIdxL i)
  | .reset t => onTargetL env t (replaceBy .undef)
  | .compress t => onTargetL env t compressL
  | .reserve t k n =>
      LM.bind (reserveL k n) (fun r =>
        match r with
        | some x => onTargetL env t (replaceBy x)
        | none => onTargetL env t LM.pure)
  | .clear t => onTargetL env t clearL

/-- One operation; an operation whose target root is not a root of the forest is not an operation on this
forest (the drivers only name existing roots). -/
def stepL (op : LOp) (env : LEnv) : LM LEnv :=
  if op.target.root < env.length then stepBody op env else LM.pure env

def runL : List LOp → LEnv → LM LEnv
  | [], env => LM.pure env
  | op :: rest, env => LM.bind (stepL op env) (fun env' => runL rest env')

/-- destruction of the roots (`delete[]`: last root first). -/
def destroyL (env : LEnv) : LM Unit := freeAll (ownedItems env.reverse)

/-- the whole trace of a forest lifetime: `n` undefined roots, the operations, destruction. -/
def lifetime (n : Nat) (ops : List LOp) : List Ev :=
  (LM.bind (runL ops (List.replicate n .undef)) destroyL 1).2.1

end Qentem.ValueLedger
