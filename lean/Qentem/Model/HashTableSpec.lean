import Qentem.Model.HashTable
/-
The specification side of C13: the hash array seen as a list of slots.

`Slots V = List (Option (List Nat × V))`: slot `i` is `some (key, value)` for a live entry and
`none` for a removed one (a tombstone keeps its position until the table is re-allocated).
`Spec V` adds the capacity, because *when* tombstones are dropped (compaction) is decided by
`Size() == Capacity()` and by the explicit resize family; nothing else of the layout is visible.
Every operation is a plain list operation; there are no buckets, links or hashes here.
The driver runs this file (op `htspec`) on the same operation sequences as the C++ harness; the
theorems of `Props/C13.lean` state that the layout model of `Model/HashTable.lean` refines it.
-/
namespace Qentem.HashTable

abbrev Slots (V : Type) := List (Option (List Nat × V))

structure Spec (V : Type) where
  cap   : Nat
  slots : Slots V

variable {V : Type}

namespace Spec

def empty : Spec V := ⟨0, []⟩

/-- Drop the removed slots, keep the order. -/
def compact (sl : Slots V) : Slots V := sl.filter Option.isSome

def hasKey (k : List Nat) : Option (List Nat × V) → Bool
  | some (k', _) => k' = k
  | none => false

/-- Slot number of the entry stored under `k`. -/
def findKey (sl : Slots V) (k : List Nat) : Option Nat :=
  let i := sl.findIdx (hasKey k)
  if i < sl.length then some i else none

def realloc (sp : Spec V) (n : Nat) : Spec V := ⟨allocCap n, compact sp.slots⟩

def growIfFull (sp : Spec V) : Spec V :=
  if sp.slots.length = sp.cap then realloc sp (((if sp.cap = 0 then 1 else 0) + sp.cap) * 2) else sp

/-- Store `v` under `k`: in place when present, else appended. -/
def put (sl : Slots V) (k : List Nat) (v : V) : Slots V :=
  match findKey sl k with
  | some i => sl.set i (some (k, v))
  | none => sl ++ [some (k, v)]

def insert (sp : Spec V) (k : List Nat) (v : V) : Spec V :=
  let sp := growIfFull sp
  { sp with slots := put sp.slots k v }

def lookup (sp : Spec V) (k : List Nat) : Option (Nat × V) :=
  match findKey sp.slots k with
  | none => none
  | some i =>
    match sp.slots[i]? with
    | some (some (_, v)) => some (i, v)
    | _ => none

def lookupIdx (sp : Spec V) (i : Nat) : Option (List Nat × V) := (sp.slots[i]?).join

/-- get-or-create: an absent key is appended with the default value. -/
def get [Inhabited V] (sp : Spec V) (k : List Nat) : Spec V × V :=
  let sp := growIfFull sp
  match lookup sp k with
  | some (_, v) => (sp, v)
  | none => ({ sp with slots := sp.slots ++ [some (k, default)] }, default)

def remove (sp : Spec V) (k : List Nat) : Spec V :=
  match findKey sp.slots k with
  | some i => { sp with slots := sp.slots.set i none }
  | none => sp

def removeIdx (sp : Spec V) (i : Nat) : Spec V :=
  match lookupIdx sp i with
  | some _ => { sp with slots := sp.slots.set i none }
  | none => sp

/-- Rename keeps slot and value; refused when `a` is absent or `b` is present. -/
def rename (sp : Spec V) (a b : List Nat) : Spec V × Bool :=
  match lookup sp a, findKey sp.slots b with
  | some (i, v), none => ({ sp with slots := sp.slots.set i (some (b, v)) }, true)
  | _, _ => (sp, false)

def clear (sp : Spec V) : Spec V := { sp with slots := [] }

def reserve (_sp : Spec V) (n : Nat) : Spec V := if n ≠ 0 then ⟨allocCap n, []⟩ else empty

def resizeTo (sp : Spec V) (n : Nat) : Spec V :=
  if n = 0 then empty else ⟨allocCap n, compact (sp.slots.take n)⟩

def expect (sp : Spec V) (count : Nat) : Spec V :=
  if count + sp.slots.length > sp.cap then realloc sp (count + sp.slots.length) else sp

def liveCount (sp : Spec V) : Nat := (compact sp.slots).length

def compress (sp : Spec V) : Spec V :=
  if liveCount sp ≠ 0 then (if liveCount sp < sp.slots.length then realloc sp (liveCount sp) else sp)
  else empty

def copy (sp : Spec V) : Spec V := if sp.slots.length ≠ 0 then realloc sp sp.slots.length else empty

def slotKey : Option (List Nat × V) → List Nat
  | some (k, _) => k
  | none => []

def slotCmp (ord : Nat → Nat) (ascend : Bool) (x p : Option (List Nat × V)) : Bool :=
  if ascend then Hash.isLess ord (slotKey x) (slotKey p) false
  else Hash.isGreater ord (slotKey x) (slotKey p) false

/-- Sort: the slots are rearranged by `Memory::Sort` on the keys (a removed slot counts as the
empty key).  Which permutation is ordered is the subject of C15. -/
def sort (ord : Nat → Nat) (sp : Spec V) (ascend : Bool) : Spec V :=
  { sp with slots := (sortSeg (slotCmp ord ascend) (sp.slots.length + 1) sp.slots.toArray 0 sp.slots.length).toList }

/-- What one source slot does to the destination slots. -/
def putOpt (sl : Slots V) : Option (List Nat × V) → Slots V
  | some (k, v) => put sl k v
  | none => sl

/-- `dst += src`: every live source entry is `put`, in source order. -/
def merge (sp src : Spec V) : Spec V :=
  let n := sp.slots.length + src.slots.length
  let sp := if n > sp.cap then realloc sp n else sp
  { sp with slots := (compact src.slots).foldl putOpt sp.slots }

def buildOperand (ins : List (List Nat × V)) (rem : List (List Nat)) : Spec V :=
  rem.foldl remove (ins.foldl (fun sp kv => insert sp kv.1 kv.2) empty)

def step [Inhabited V] (ord : Nat → Nat) (sp : Spec V) : Op V → Spec V × Out V
  | .insert k v => (insert sp k v, .unit)
  | .get k => let r := get sp k; (r.1, .value r.2)
  | .assign k v => let r := get sp k; (⟨r.1.cap, put r.1.slots k v⟩, .unit)
  | .lookup k => (sp, .found (lookup sp k))
  | .lookupIdx i => (sp, .entry (lookupIdx sp i))
  | .remove k => (remove sp k, .unit)
  | .removeIdx i => (removeIdx sp i, .unit)
  | .rename a b => let r := rename sp a b; (r.1, .flag r.2)
  | .reserve n => (reserve sp n, .unit)
  | .resize n => (resizeTo sp n, .unit)
  | .expect n => (expect sp n, .unit)
  | .compress => (compress sp, .unit)
  | .clear => (clear sp, .unit)
  | .reset => (empty, .unit)
  | .sort a => (sort ord sp a, .unit)
  | .copy => (copy sp, .unit)
  | .move => (sp, .unit)
  | .merge ins rem => (merge sp (buildOperand ins rem), .unit)
  | .selfMerge => (sp, .unit)

def run [Inhabited V] (ord : Nat → Nat) : Spec V → List (Op V) → Spec V × List (Out V)
  | sp, [] => (sp, [])
  | sp, op :: ops =>
    let r := step ord sp op
    let r' := run ord r.1 ops
    (r'.1, r.2 :: r'.2)

end Spec

/-- The abstraction function: a removed item (`Hash == 0`) is an empty slot. -/
def absSlots (s : HT V) : Slots V :=
  s.items.toList.map fun it => if it.hash = 0 then none else some (it.key, it.val)

def abs (s : HT V) : Spec V := ⟨s.cap, absSlots s⟩

end Qentem.HashTable
