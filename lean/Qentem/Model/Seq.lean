/-!
# Model of the four flat containers (C14)

* `ArrayM α`   — `Array<Type_T>`      (Include/Array.hpp)         `{data, cap}`
* `StringM`    — `String<Char_T>`     (Include/String.hpp)        `{store, len}`; `store = none` is the
  null pointer, `some buf` is the heap block (so the cell holding the terminator exists in the model)
* `StreamM`    — `StringStream<Char_T>` (Include/StringStream.hpp) `{data, cap}` + capacity `Policy`
* `ViewM`      — `StringView<Char_T>` (Include/StringView.hpp)    `{store, len}` (non-owning)

How mutation became values.  Every container operation is a pure function on the record.  A test
program works on a small table of named objects (`Nat → σ`, register → object); an operation with a
second container operand names two registers, so aliasing (`a += a`, `a = a`, `s << s`) and
moved-from objects are ordinary states of the table.  Binary operations read the source register
first, then write the destination register, then (for moves) clear the source register, in the order
of effects of the C++.

Heap cells that are allocated but not yet constructed (`[Size, Capacity)` of an array, `[Length,
Capacity)` of a stream) have no content in the model; the operations that expose them to the caller
(`String(len)`, `StringStream::Buffer`, `SetLength`) take the values the caller then writes as an
argument (`fill`).  Code units and `int` elements are `Nat`; an `Array<String>` element is modelled by
the number it spells (ownership only matters to the allocator ledger, which is the sanitizer's job).

`SizeT` is 32 bit; all sizes here are `Nat` (no wrap-around).  The theorems therefore assume sizes
below `2^32` (`2^30` for the ×4 stream policy) — the harness stays far below.

Three self-aliasing / null cases were defects until 5f6da32 (`Array::operator+=(const Array&)` on
itself), c1884a5 (`operator<<(StringStream&, const StringStream&)` on itself across a reallocation) and
6bc11c7 (`String::StepBack(0)` on a null string); the model describes the code after those commits.
-/
namespace Qentem.Seq

/-- Update one register of an object table. -/
def setR {σ : Type} (st : Nat → σ) (r : Nat) (v : σ) : Nat → σ := fun i => if i = r then v else st i

/-! ## Array (Array.hpp) -/

structure ArrayM (α : Type) where
  data : List α
  cap : Nat
deriving Repr

namespace ArrayM
variable {α : Type}

def empty : ArrayM α := ⟨[], 0⟩
def size (a : ArrayM α) : Nat := a.data.length

/-- private `resize(new_size)` (372-381): new block of `new_size` items, the first `Size()` items are
byte-copied.  (Needs `Size() ≤ new_size`; every caller guarantees it — theorem `arr_inv`.) -/
def resizeTo (a : ArrayM α) (n : Nat) : ArrayM α := ⟨a.data, n⟩

/-- `operator+=(const Type_T&)`, `operator+=(Type_T&&)`, `Insert(item)` (152-192). -/
def push (a : ArrayM α) (x : α) : ArrayM α :=
  let a' := if a.size = a.cap then a.resizeTo ((if a.cap = 0 then 1 else a.cap) * 2) else a
  ⟨a'.data ++ [x], a'.cap⟩

/-- `operator+=(const Array &src)` / `Insert(const Array&)` (131-150, 174), `src` = the items of the
source (its size is read once, before the destination changes — also when `src` is `*this`). -/
def appendCopy (a : ArrayM α) (src : List α) : ArrayM α :=
  let n := a.size + src.length
  let a' := if n > a.cap then a.resizeTo n else a
  ⟨a'.data ++ src, a'.cap⟩

/-- `operator+=(Array &&src)` / `Insert(Array&&)` (108-129, 170): an array without capacity adopts the
source block. -/
def appendMove (a src : ArrayM α) : ArrayM α :=
  if a.cap = 0 then ⟨src.data, src.cap⟩
  else
    let n := a.size + src.size
    let a' := if n > a.cap then a.resizeTo n else a
    ⟨a'.data ++ src.data, a'.cap⟩

def clear (a : ArrayM α) : ArrayM α := ⟨[], a.cap⟩                    -- 194-198
def reset (_ : ArrayM α) : ArrayM α := empty                           -- 200-207; Detach 209-217

/-- `Reserve(size, initialize)` (219-231) and `Array(size, initialize)` (43-52). -/
def reserve (d : α) (_ : ArrayM α) (n : Nat) (init : Bool) : ArrayM α :=
  if n ≠ 0 then (if init then ⟨List.replicate n d, n⟩ else ⟨[], n⟩) else empty

/-- `Resize(new_size)` (233-246). -/
def resize (a : ArrayM α) (n : Nat) : ArrayM α :=
  if n ≠ 0 then
    let a' : ArrayM α := if a.size > n then ⟨a.data.take n, a.cap⟩ else a
    a'.resizeTo n
  else empty

/-- `ResizeAndInitialize(new_size)` (248-257).  The final `setSize(Capacity())` is not expressible on
a list; that the list built here has exactly `Capacity()` items is theorem `resizeInit_full`. -/
def resizeInit (d : α) (a : ArrayM α) (n : Nat) : ArrayM α :=
  let a' := a.resize n
  if n > a'.size then ⟨a'.data ++ List.replicate (n - a'.size) d, a'.cap⟩ else a'

/-- `Expect(size)` (259-265). -/
def expect (a : ArrayM α) (n : Nat) : ArrayM α :=
  let m := n + a.size
  if m > a.cap then a.resizeTo m else a

def compress (a : ArrayM α) : ArrayM α := a.resize a.size               -- 280-283

/-- `Drop(size)` (309-316). -/
def drop (a : ArrayM α) (n : Nat) : ArrayM α :=
  if n ≤ a.size then ⟨a.data.take (a.size - n), a.cap⟩ else a

/-- `Array(const Array&)` (54-59) and `operator=(const Array&)` (87-106): capacity = source size. -/
def ofCopy (src : List α) : ArrayM α := ⟨src, src.length⟩

def last? (a : ArrayM α) : Option α := a.data.getLast?                 -- 301-307
end ArrayM

/-- Operations of an `Array` test program over a register table. -/
inductive ArrOp (α : Type) where
  | push (r : Nat) (x : α)
  | pushSelf (r i : Nat)        -- `r += r[i]` / `r.Insert(r[i])`: the argument is a `const&` into the array's own storage
  | appC (r s : Nat)            -- `r += (const Array&) s`, `s = r` allowed
  | appM (r s : Nat)            -- `r += Move(s)`
  | asgC (r s : Nat)            -- `r = s`
  | asgM (r s : Nat)            -- `r = Move(s)`
  | ctorC (r s : Nat)           -- `r` is destroyed and re-created as `Array(s)`
  | ctorM (r s : Nat)           -- … as `Array(Move(s))`
  | ctorN (r n : Nat) (init : Bool)
  | clear (r : Nat) | reset (r : Nat) | detach (r : Nat)
  | reserve (r n : Nat) (init : Bool)
  | resize (r n : Nat) | resizeInit (r n : Nat) | expect (r n : Nat)
  | compress (r : Nat) | drop (r n : Nat)
deriving Repr

abbrev ArrSt (α : Type) := Nat → ArrayM α

/-- One step; the second component is what the operation hands back to the caller (`Detach`). -/
def ArrOp.step {α : Type} (d : α) (op : ArrOp α) (st : ArrSt α) : ArrSt α × Option (List α) :=
  match op with
  | .push r x => (setR st r ((st r).push x), none)
  | .pushSelf r i =>
    match (st r).data[i]? with          -- the argument's value is taken before the array changes
    | some x => (setR st r ((st r).push x), none)
    | none => (st, none)
  | .appC r s => (setR st r ((st r).appendCopy (st s).data), none)
  | .appM r s =>
    let src := st s
    (setR (setR st r ((st r).appendMove src)) s ArrayM.empty, none)
  | .asgC r s => (if r = s then st else setR st r (ArrayM.ofCopy (st s).data), none)
  | .asgM r s => (if r = s then st else setR (setR st r (st s)) s ArrayM.empty, none)
  | .ctorC r s => (setR st r (ArrayM.ofCopy (st s).data), none)
  | .ctorM r s => let v := st s; (setR (setR st s ArrayM.empty) r v, none)
  | .ctorN r n init => (setR st r (ArrayM.reserve d ArrayM.empty n init), none)
  | .clear r => (setR st r (st r).clear, none)
  | .reset r => (setR st r (st r).reset, none)
  | .detach r => (setR st r ArrayM.empty, some (st r).data)
  | .reserve r n init => (setR st r (ArrayM.reserve d (st r) n init), none)
  | .resize r n => (setR st r ((st r).resize n), none)
  | .resizeInit r n => (setR st r (ArrayM.resizeInit d (st r) n), none)
  | .expect r n => (setR st r ((st r).expect n), none)
  | .compress r => (setR st r (st r).compress, none)
  | .drop r n => (setR st r ((st r).drop n), none)

/-- Run a program, collecting the state after every step. -/
def arrRun {α : Type} (d : α) : List (ArrOp α) → ArrSt α → ArrSt α
  | [], st => st
  | op :: ops, st => arrRun d ops (op.step d st).1

def arrInit {α : Type} : ArrSt α := fun _ => ArrayM.empty

/-- What the program hands back to its caller, step by step. -/
def arrOuts {α : Type} (d : α) : List (ArrOp α) → ArrSt α → List (Option (List α))
  | [], _ => []
  | op :: ops, st => (op.step d st).2 :: arrOuts d ops (op.step d st).1

/-! ### The plain-sequence specification of the same programs (no capacity, no storage) -/

abbrev ArrAbs (α : Type) := Nat → List α

def ArrOp.spec {α : Type} (d : α) (op : ArrOp α) (st : ArrAbs α) : ArrAbs α × Option (List α) :=
  match op with
  | .push r x => (setR st r (st r ++ [x]), none)
  | .pushSelf r i =>
    match (st r)[i]? with
    | some x => (setR st r (st r ++ [x]), none)
    | none => (st, none)
  | .appC r s => (setR st r (st r ++ st s), none)
  | .appM r s => (setR (setR st r (st r ++ st s)) s [], none)
  | .asgC r s => (setR st r (st s), none)
  | .asgM r s => (if r = s then st else setR (setR st r (st s)) s [], none)
  | .ctorC r s => (setR st r (st s), none)
  | .ctorM r s => let v := st s; (setR (setR st s []) r v, none)
  | .ctorN r n init => (setR st r (if init then List.replicate n d else []), none)
  | .clear r => (setR st r [], none)
  | .reset r => (setR st r [], none)
  | .detach r => (setR st r [], some (st r))
  | .reserve r n init => (setR st r (if init then List.replicate n d else []), none)
  | .resize r n => (setR st r ((st r).take n), none)
  | .resizeInit r n => (setR st r ((st r).take n ++ List.replicate (n - (st r).length) d), none)
  | .expect _ _ => (st, none)
  | .compress r => (setR st r (st r), none)
  | .drop r n => (setR st r (if n ≤ (st r).length then (st r).take ((st r).length - n) else st r), none)

def arrSpecRun {α : Type} (d : α) : List (ArrOp α) → ArrAbs α → ArrAbs α
  | [], st => st
  | op :: ops, st => arrSpecRun d ops (op.spec d st).1

def arrSpecOuts {α : Type} (d : α) : List (ArrOp α) → ArrAbs α → List (Option (List α))
  | [], _ => []
  | op :: ops, st => (op.spec d st).2 :: arrSpecOuts d ops (op.spec d st).1

/-! ## String comparison primitives (StringUtils.hpp:111-162) on lists (suffix recursion; the cursor
versions are C15's subject) -/

def isEqual : List Nat → List Nat → Bool
  | [], [] => true
  | a :: as, b :: bs => a == b && isEqual as bs
  | _, _ => false

def isLess : List Nat → List Nat → Bool → Bool
  | a :: as, b :: bs, oe => if a > b then false else if a < b then true else isLess as bs oe
  | l, r, oe => decide (l.length < r.length) || (oe && decide (l.length = r.length))

def isGreater : List Nat → List Nat → Bool → Bool
  | a :: as, b :: bs, oe => if a < b then false else if a > b then true else isGreater as bs oe
  | l, r, oe => decide (l.length > r.length) || (oe && decide (l.length = r.length))

/-- The six operators of `String` / `StringView` (String.hpp:160-208), numbered
0 `==`, 1 `!=`, 2 `<`, 3 `<=`, 4 `>`, 5 `>=`. -/
def compareOp (k : Nat) (l r : List Nat) : Bool :=
  match k with
  | 0 => isEqual l r
  | 1 => !isEqual l r
  | 2 => isLess l r false
  | 3 => isLess l r true
  | 4 => isGreater l r false
  | _ => isGreater l r true

/-- White space of `StringUtils::TrimLeft/TrimRight` (StringUtils.hpp:32-37). -/
def isWs (c : Nat) : Bool := c == 32 || c == 10 || c == 9 || c == 13

/-- `StringUtils::Trim` (StringUtils.hpp:53-109) as a function on the unit list. -/
def trimList (l : List Nat) : List Nat := ((l.dropWhile isWs).reverse.dropWhile isWs).reverse

/-- `StringUtils::TrimLeft(str, offset&, end_offset)` (StringUtils.hpp:53-72): the new `offset`. -/
def trimLeftOff (u : List Nat) (off end_ : Nat) : Nat :=
  off + (((u.take end_).drop off).takeWhile isWs).length

/-- `StringUtils::TrimRight(str, offset, end_offset&)` (StringUtils.hpp:74-97): the new `end_offset`. -/
def trimRightEnd (u : List Nat) (off end_ : Nat) : Nat :=
  end_ - (((u.take end_).drop off).reverse.takeWhile isWs).length

/-- `StringUtils::Trim(str, offset&, length&)` (StringUtils.hpp:101-109): the new `(offset, length)`. -/
def trimOffLen (u : List Nat) (off len : Nat) : Nat × Nat :=
  if len ≠ 0 then
    let e := len + off
    let o' := trimLeftOff u off e
    let e' := trimRightEnd u o' e
    (o', e' - o')
  else (off, len)

/-- A sub-range `[off, off+n)` of a container's own content, handed back to it as pointer + length
(or as a view).  The value is taken before the container changes. -/
def ownSlice (d : List Nat) (off n : Nat) : List Nat := (d.drop off).take n

/-- The C string starting at unit `off` of a container's own (terminated) buffer. -/
def ownCStr (d : List Nat) (off : Nat) : List Nat := (d.drop off).takeWhile (· != 0)

/-! ## String (String.hpp) -/

structure StringM where
  store : Option (List Nat)
  len : Nat
deriving Repr

namespace StringM

def empty : StringM := ⟨none, 0⟩

/-- The characters: the first `len` cells of the block. -/
def data (s : StringM) : List Nat :=
  match s.store with
  | none => []
  | some b => b.take s.len

/-- The cell at `Storage()[Length()]`, if it exists. -/
def term? (s : StringM) : Option Nat :=
  match s.store with
  | none => none
  | some b => b[s.len]?

/-- `copyString(str, len)` (412-421): fresh block of `len + 1` cells. Used by the copy constructor,
`String(const Char_T*, len)`, `String(const Char_T*)`, both copy assignments, `Trim`. -/
def ofUnits (u : List Nat) : StringM := ⟨some (u ++ [0]), u.length⟩

/-- `String(len)` (49-55) followed by the caller writing `fill` (`len = fill.length`) through
`Storage()`. -/
def ofFill (fill : List Nat) : StringM :=
  if fill.length ≠ 0 then ⟨some (fill ++ [0]), fill.length⟩ else empty

/-- `String(Char_T *str, len)` (57-60): adopts the caller's block as it is. -/
def adopt (buf : List Nat) (len : Nat) : StringM := ⟨some buf, len⟩

/-- `Write(str, len)` (241-259): always a fresh exact-fit block; nothing happens for an empty or
null source. -/
def write (s : StringM) (u : List Nat) : StringM :=
  if u.length ≠ 0 then ⟨some (s.data ++ u ++ [0]), s.len + u.length⟩ else s

/-- `merge` (396-410): `String{len1 + len2}` is the default (null) string when the sum is 0. -/
def merge (a b : List Nat) : StringM :=
  if a.length + b.length ≠ 0 then ⟨some (a ++ b ++ [0]), a.length + b.length⟩ else empty

/-- `StepBack(len)` (270-279); on a null string nothing is written. -/
def stepBack (s : StringM) (n : Nat) : StringM :=
  if n ≤ s.len then
    match s.store with
    | none => s
    | some b => ⟨some (b.set (s.len - n) 0), s.len - n⟩
  else s

/-- `Reverse(index)` (280-292): the cells `[index, Length())` are reversed in place. -/
def reverse (s : StringM) (idx : Nat) : StringM :=
  match s.store with
  | none => s
  | some b =>
    if idx < s.len then ⟨some (b.take idx ++ ((b.take s.len).drop idx).reverse ++ b.drop s.len), s.len⟩ else s

/-- `InsertAt(ch, index)` (294-312): shift right inside the block, the displaced last unit is
appended through `Write` (fresh block). -/
def insertAt (s : StringM) (c idx : Nat) : StringM :=
  if idx < s.len then
    let d := s.data
    ⟨some (d.take idx ++ [c] ++ d.drop idx ++ [0]), s.len + 1⟩
  else s

def last? (s : StringM) : Option Nat := if s.len ≠ 0 then s.data.getLast? else none   -- 318-334

end StringM

inductive StrOp where
  | ctorC (r s : Nat)                 -- destroy r, `String(s)`
  | ctorM (r s : Nat)                 -- destroy r, `String(Move(s))`
  | ctorU (r : Nat) (u : List Nat)    -- `String(const Char_T*, len)` / `String(const Char_T*)`
  | ctorF (r : Nat) (fill : List Nat) -- `String(len)` + caller fills
  | adopt (r : Nat) (u : List Nat)    -- `String(Char_T*, len)` on a block `u ++ [0]`
  | asgC (r s : Nat) | asgM (r s : Nat) | asgU (r : Nat) (u : List Nat)
  | appC (r s : Nat) | appM (r s : Nat)
  | appU (r : Nat) (u : List Nat)     -- `+= const Char_T*`, `<< const Char_T*`, `Write(ptr, len)`
  | appCh (r c : Nat)
  | appOwn (v r off n : Nat)          -- argument inside its own block: `Write(First()+off, n)` (v=0), `+= First()+off` (1), `<< First()+off` (2)
  | asgOwn (r off : Nat)              -- `r = r.First() + off`
  | plus (r s t : Nat)                -- `r = s + t`
  | plusM (r s t : Nat)               -- `r = s + Move(t)`
  | plusU (r s : Nat) (u : List Nat)  -- `r = s + "…"`
  | trim (r s : Nat)                  -- `r = String::Trim(s)`
  | stepBack (r n : Nat) | reverse (r idx : Nat) | insertAt (r c idx : Nat)
  | reset (r : Nat) | detach (r : Nat)
  | cmp (k r s : Nat)                 -- operator k on registers r, s
  | cmpU (k r : Nat) (u : List Nat)   -- operator k against a C string / `IsEqual(ptr, len)` (k = 6)
deriving Repr

abbrev StrSt := Nat → StringM

/-- Output of a step: units handed back (`Detach`) or a comparison result. -/
inductive Out where
  | none | units (u : List Nat) | bool (b : Bool)
deriving Repr, BEq, DecidableEq

def StrOp.step (op : StrOp) (st : StrSt) : StrSt × Out :=
  match op with
  | .ctorC r s => (setR st r (StringM.ofUnits (st s).data), .none)
  | .ctorM r s => let v := st s; (setR (setR st s StringM.empty) r v, .none)
  | .ctorU r u => (setR st r (StringM.ofUnits u), .none)
  | .ctorF r f => (setR st r (StringM.ofFill f), .none)
  | .adopt r u => (setR st r (StringM.adopt (u ++ [0]) u.length), .none)
  | .asgC r s => (if r = s then st else setR st r (StringM.ofUnits (st s).data), .none)
  | .asgM r s => (if r = s then st else setR (setR st r (st s)) s StringM.empty, .none)
  | .asgU r u => (setR st r (StringM.ofUnits u), .none)
  | .appC r s => (setR st r ((st r).write (st s).data), .none)
  | .appM r s => (setR (setR st r ((st r).write (st s).data)) s StringM.empty, .none)
  | .appU r u => (setR st r ((st r).write u), .none)
  | .appCh r c => (setR st r ((st r).write [c]), .none)
  | .appOwn v r off n =>
    let d := (st r).data
    (setR st r ((st r).write (if v = 0 then ownSlice d off n else ownCStr d off)), .none)
  | .asgOwn r off =>
    match (st r).store with
    | none => (st, .none)                        -- no block, no pointer to hand in
    | some _ => (setR st r (StringM.ofUnits (ownCStr (st r).data off)), .none)
  | .plus r s t => (setR st r (StringM.merge (st s).data (st t).data), .none)
  | .plusM r s t => let m := StringM.merge (st s).data (st t).data; (setR (setR st t StringM.empty) r m, .none)
  | .plusU r s u => (setR st r (StringM.merge (st s).data u), .none)
  | .trim r s => (setR st r (StringM.ofUnits (trimList (st s).data)), .none)
  | .stepBack r n => (setR st r ((st r).stepBack n), .none)
  | .reverse r i => (setR st r ((st r).reverse i), .none)
  | .insertAt r c i => (setR st r ((st r).insertAt c i), .none)
  | .reset r => (setR st r StringM.empty, .none)
  | .detach r => (setR st r StringM.empty, .units (st r).data)
  | .cmp k r s => (st, .bool (compareOp k (st r).data (st s).data))
  | .cmpU k r u => (st, .bool (compareOp (if k = 6 then 0 else k) (st r).data u))

def strRun : List StrOp → StrSt → StrSt
  | [], st => st
  | op :: ops, st => strRun ops (op.step st).1

def strInit : StrSt := fun _ => StringM.empty

def strOuts : List StrOp → StrSt → List Out
  | [], _ => []
  | op :: ops, st => (op.step st).2 :: strOuts ops (op.step st).1

/-- Plain-sequence specification for strings and streams and views: a register holds a unit list. -/
abbrev SeqAbs := Nat → List Nat

def StrOp.spec (op : StrOp) (st : SeqAbs) : SeqAbs × Out :=
  match op with
  | .ctorC r s => (setR st r (st s), .none)
  | .ctorM r s => let v := st s; (setR (setR st s []) r v, .none)
  | .ctorU r u => (setR st r u, .none)
  | .ctorF r f => (setR st r f, .none)
  | .adopt r u => (setR st r u, .none)
  | .asgC r s => (setR st r (st s), .none)
  | .asgM r s => (if r = s then st else setR (setR st r (st s)) s [], .none)
  | .asgU r u => (setR st r u, .none)
  | .appC r s => (setR st r (st r ++ st s), .none)
  | .appM r s => (setR (setR st r (st r ++ st s)) s [], .none)
  | .appU r u => (setR st r (st r ++ u), .none)
  | .appCh r c => (setR st r (st r ++ [c]), .none)
  | .appOwn v r off n => (setR st r (st r ++ (if v = 0 then ownSlice (st r) off n else ownCStr (st r) off)), .none)
  | .asgOwn r off => (setR st r (ownCStr (st r) off), .none)
  | .plus r s t => (setR st r (st s ++ st t), .none)
  | .plusM r s t => let m := st s ++ st t; (setR (setR st t []) r m, .none)
  | .plusU r s u => (setR st r (st s ++ u), .none)
  | .trim r s => (setR st r (trimList (st s)), .none)
  | .stepBack r n => (setR st r (if n ≤ (st r).length then (st r).take ((st r).length - n) else st r), .none)
  | .reverse r i => (setR st r ((st r).take i ++ ((st r).drop i).reverse), .none)
  | .insertAt r c i => (setR st r (if i < (st r).length then (st r).take i ++ [c] ++ (st r).drop i else st r), .none)
  | .reset r => (setR st r [], .none)
  | .detach r => (setR st r [], .units (st r))
  | .cmp k r s => (st, .bool (compareOp k (st r) (st s)))
  | .cmpU k r u => (st, .bool (compareOp (if k = 6 then 0 else k) (st r) u))

def strSpecRun : List StrOp → SeqAbs → SeqAbs
  | [], st => st
  | op :: ops, st => strSpecRun ops (op.spec st).1

def strSpecOuts : List StrOp → SeqAbs → List Out
  | [], _ => []
  | op :: ops, st => (op.spec st).2 :: strSpecOuts ops (op.spec st).1

/-! ## StringStream (StringStream.hpp) -/

/-- Capacity policy: `alloc n` = capacity obtained by `allocate(n)` (445-453), `grow n` = what
`expand(n)` asks `allocate` for (430-443). -/
structure Policy where
  alloc : Nat → Nat
  grow : Nat → Nat

/-- `Memory::AlignSize` (Memory.hpp:150-158): the next power of two.  (`FindLastBit(0)` is never
evaluated: `allocate` is only called with a non-zero size; the model returns 1 there.) -/
def alignSize (n : Nat) : Nat :=
  let s := 1 <<< n.log2
  if s < n then s <<< 1 else s

def policyStd : Policy := ⟨alignSize, fun n => n * 4⟩     -- the shipped code
def policyExact : Policy := ⟨id, id⟩                       -- under `QENTEM_VERIF`

structure StreamM where
  data : List Nat
  cap : Nat
deriving Repr

namespace StreamM
variable (P : Policy)

def empty : StreamM := ⟨[], 0⟩
def len (s : StreamM) : Nat := s.data.length

/-- `expand(new_capacity)` (430-443): the `Length()` units are copied into the new block. -/
def expand (s : StreamM) (n : Nat) : StreamM := ⟨s.data, P.alloc (P.grow n)⟩

/-- private `write(str, len)` (417-428); all of `+= String/StringView/const Char_T*`, the `<<`
family and `Write`. -/
def write (s : StreamM) (u : List Nat) : StreamM :=
  let n := s.len + u.length
  let s' := if s.cap < n then s.expand P n else s
  ⟨s'.data ++ u, s'.cap⟩

/-- `StringStream(size)` (43-47), `Reserve(size)` after the reset (301-307). -/
def ofSize (n : Nat) : StreamM := if n ≠ 0 then ⟨[], P.alloc n⟩ else empty

/-- `StringStream(const StringStream&)` (56-61). -/
def ofCopy (u : List Nat) : StreamM :=
  if u.length ≠ 0 then (⟨[], P.alloc u.length⟩ : StreamM).write P u else empty

def clear (s : StreamM) : StreamM := ⟨[], s.cap⟩                        -- 220-222

/-- `operator+=(Char_T)` (108-117). -/
def pushChar (s : StreamM) (c : Nat) : StreamM :=
  let s' := if s.cap = s.len then s.expand P (s.len + 1) else s
  ⟨s'.data ++ [c], s'.cap⟩

/-- `Expect(len)` (293-299). -/
def expect (s : StreamM) (n : Nat) : StreamM :=
  let m := n + s.len
  if s.cap < m then s.expand P m else s

/-- `operator+=(const StringStream&)` (119-124): `Expect`, then `write` of the source read after
the `Expect` — `u` is the source's content (for `s += s` its own).
`operator<<(StringStream&, const StringStream&)` (151-154) calls it. -/
def appendStream (s : StreamM) (u : List Nat) : StreamM := (s.expect P u.length).write P u

def stepBack (s : StreamM) (n : Nat) : StreamM :=                        -- 232-236
  if n ≤ s.len then ⟨s.data.take (s.len - n), s.cap⟩ else s

def reverse (s : StreamM) (idx : Nat) : StreamM :=                       -- 238-249
  ⟨s.data.take idx ++ (s.data.drop idx).reverse, s.cap⟩

/-- `InsertAt(ch, index)` (251-268): in-place shift, the displaced last unit goes through `+=`. -/
def insertAt (s : StreamM) (c idx : Nat) : StreamM :=
  if idx < s.len then
    match (s.data.take idx ++ [c] ++ s.data.drop idx).getLast? with
    | some l => (⟨(s.data.take idx ++ [c] ++ s.data.drop idx).dropLast, s.cap⟩ : StreamM).pushChar P l
    | none => s
  else s

/-- `SetLength(len)` (270-276) followed by the caller writing `fill` into the new cells. -/
def setLength (s : StreamM) (n : Nat) (fill : List Nat) : StreamM :=
  let s' := if s.cap < n then s.expand P n else s
  if n ≤ s.len then ⟨s'.data.take n, s'.cap⟩ else ⟨s'.data ++ fill.take (n - s.len), s'.cap⟩

/-- `Buffer(len)` (279-291) followed by the caller writing `fill` (`len = fill.length`). -/
def buffer (s : StreamM) (fill : List Nat) : StreamM :=
  let n := s.len + fill.length
  let s' := if s.cap < n then s.expand P n else s
  ⟨s'.data ++ fill, s'.cap⟩

/-- `InsertNull()` (338-344): room for one more unit; the length does not change. -/
def insertNull (s : StreamM) : StreamM :=
  if s.cap = s.len then s.expand P (s.len + 1) else s

end StreamM

inductive SsOp where
  | ctorN (r n : Nat) | ctorC (r s : Nat) | ctorM (r s : Nat)
  | asgC (r s : Nat) | asgM (r s : Nat)
  | asgU (v r : Nat) (u : List Nat)   -- `= String` (v=0) / `= StringView` (1) / `= const Char_T*` (2)
  | pushCh (v r c : Nat)              -- `+= ch` (0) / `<< ch` (1)
  | appS (r s : Nat)                  -- `r += stream s`
  | shlS (r s : Nat)                  -- `r << stream s`
  | appU (v r : Nat) (u : List Nat)   -- `+= String`(0) `+= View`(1) `+= cstr`(2) `<< String`(3) `<< View`(4) `<< cstr`(5) `Write`(6)
  | appOwn (v r off n : Nat)          -- argument inside its own buffer: `Write(First()+off, n)` (v=0), `+=`/`<<` a view of
                                      -- `[off, off+n)` (1, 2), `InsertNull(); += / << First()+off` (3, 4), `<< GetStringView()` (5)
  | asgOwn (v r off n : Nat)          -- `r = StringView(First()+off, n)` (v=0), `InsertNull(); r = First()+off` (1)
  | clear (r : Nat) | reset (r : Nat) | detach (r : Nat)
  | stepBack (r n : Nat) | reverse (r idx : Nat) | insertAt (r c idx : Nat)
  | setLength (r n : Nat) (fill : List Nat) | buffer (r : Nat) (fill : List Nat)
  | expect (r n : Nat) | reserve (r n : Nat)
  | getString (r : Nat) | getView (r : Nat) | insertNull (r : Nat)
  | eqS (k r s : Nat)                 -- `==` (k=0) / `!=` (1) between streams
  | eqU (v k r : Nat) (u : List Nat)  -- against String (0) / View (1) / cstr (2) / IsEqual(ptr,len) (3)
deriving Repr

abbrev SsSt := Nat → StreamM

def SsOp.step (P : Policy) (op : SsOp) (st : SsSt) : SsSt × Out :=
  match op with
  | .ctorN r n => (setR st r (StreamM.ofSize P n), .none)
  | .ctorC r s => (setR st r (StreamM.ofCopy P (st s).data), .none)
  | .ctorM r s => let v := st s; (setR (setR st s StreamM.empty) r v, .none)
  | .asgC r s => (if r = s then st else setR st r ((st r).clear.write P (st s).data), .none)
  | .asgM r s => (if r = s then st else setR (setR st r (st s)) s StreamM.empty, .none)
  | .asgU _ r u => (setR st r ((st r).clear.write P u), .none)
  | .pushCh _ r c => (setR st r ((st r).pushChar P c), .none)
  | .appS r s => (setR st r ((st r).appendStream P (st s).data), .none)
  | .shlS r s => (setR st r ((st r).appendStream P (st s).data), .none)
  | .appU _ r u => (setR st r ((st r).write P u), .none)
  | .appOwn v r off n =>
    let d := (st r).data
    if v < 3 then (setR st r ((st r).write P (ownSlice d off n)), .none)
    else if v < 5 then (setR st r (((st r).insertNull P).write P (ownCStr d off)), .none)
    else (setR st r (((st r).insertNull P).write P d), .none)
  | .asgOwn v r off n =>
    let d := (st r).data
    if v = 0 then (setR st r ((st r).clear.write P (ownSlice d off n)), .none)
    else (setR st r (((st r).insertNull P).clear.write P (ownCStr d off)), .none)
  | .clear r => (setR st r (st r).clear, .none)
  | .reset r => (setR st r StreamM.empty, .none)
  | .detach r => (setR st r StreamM.empty, .units (st r).data)
  | .stepBack r n => (setR st r ((st r).stepBack n), .none)
  | .reverse r i => (setR st r ((st r).reverse i), .none)
  | .insertAt r c i => (setR st r ((st r).insertAt P c i), .none)
  | .setLength r n f => (setR st r ((st r).setLength P n f), .none)
  | .buffer r f => (setR st r ((st r).buffer P f), .none)
  | .expect r n => (setR st r ((st r).expect P n), .none)
  | .reserve r n => (setR st r (StreamM.ofSize P n), .none)
  | .getString r => (setR st r StreamM.empty, .units ((st r).data ++ [0]))
  | .getView r => (setR st r ((st r).insertNull P), .units ((st r).data ++ [0]))
  | .insertNull r => (setR st r ((st r).insertNull P), .none)
  | .eqS k r s => (st, .bool (compareOp k (st r).data (st s).data))
  | .eqU _ k r u => (st, .bool (compareOp k (st r).data u))

def ssRun (P : Policy) : List SsOp → SsSt → SsSt
  | [], st => st
  | op :: ops, st => ssRun P ops (op.step P st).1

def ssInit : SsSt := fun _ => StreamM.empty

def ssOuts (P : Policy) : List SsOp → SsSt → List Out
  | [], _ => []
  | op :: ops, st => (op.step P st).2 :: ssOuts P ops (op.step P st).1

def SsOp.spec (op : SsOp) (st : SeqAbs) : SeqAbs × Out :=
  match op with
  | .ctorN r _ => (setR st r [], .none)
  | .ctorC r s => (setR st r (st s), .none)
  | .ctorM r s => let v := st s; (setR (setR st s []) r v, .none)
  | .asgC r s => (setR st r (st s), .none)
  | .asgM r s => (if r = s then st else setR (setR st r (st s)) s [], .none)
  | .asgU _ r u => (setR st r u, .none)
  | .pushCh _ r c => (setR st r (st r ++ [c]), .none)
  | .appS r s => (setR st r (st r ++ st s), .none)
  | .shlS r s => (setR st r (st r ++ st s), .none)
  | .appU _ r u => (setR st r (st r ++ u), .none)
  | .appOwn v r off n =>
    (setR st r (st r ++ (if v < 3 then ownSlice (st r) off n else if v < 5 then ownCStr (st r) off else st r)), .none)
  | .asgOwn v r off n => (setR st r (if v = 0 then ownSlice (st r) off n else ownCStr (st r) off), .none)
  | .clear r => (setR st r [], .none)
  | .reset r => (setR st r [], .none)
  | .detach r => (setR st r [], .units (st r))
  | .stepBack r n => (setR st r (if n ≤ (st r).length then (st r).take ((st r).length - n) else st r), .none)
  | .reverse r i => (setR st r ((st r).take i ++ ((st r).drop i).reverse), .none)
  | .insertAt r c i => (setR st r (if i < (st r).length then (st r).take i ++ [c] ++ (st r).drop i else st r), .none)
  | .setLength r n f => (setR st r (if n ≤ (st r).length then (st r).take n else st r ++ f.take (n - (st r).length)), .none)
  | .buffer r f => (setR st r (st r ++ f), .none)
  | .expect _ _ => (st, .none)
  | .reserve r _ => (setR st r [], .none)
  | .getString r => (setR st r [], .units (st r ++ [0]))
  | .getView r => (st, .units (st r ++ [0]))
  | .insertNull _ => (st, .none)
  | .eqS k r s => (st, .bool (compareOp k (st r) (st s)))
  | .eqU _ k r u => (st, .bool (compareOp k (st r) u))

def ssSpecRun : List SsOp → SeqAbs → SeqAbs
  | [], st => st
  | op :: ops, st => ssSpecRun ops (op.spec st).1

def ssSpecOuts : List SsOp → SeqAbs → List Out
  | [], _ => []
  | op :: ops, st => (op.spec st).2 :: ssSpecOuts ops (op.spec st).1

/-! ## StringView (StringView.hpp): a pointer into somebody else's buffer and a length -/

structure ViewM where
  store : Option (List Nat)      -- the memory starting at `First()`; `none` = null
  len : Nat
deriving Repr

namespace ViewM
def empty : ViewM := ⟨none, 0⟩
def data (v : ViewM) : List Nat :=
  match v.store with
  | none => []
  | some b => b.take v.len
/-- `StringView(const Char_T*, len)` (47-50) on the buffer `buf`. -/
def ofPtr (buf : List Nat) (len : Nat) : ViewM := ⟨some buf, len⟩
/-- `StringView(const Char_T*)`, `operator=(const Char_T*)` (52-55, 78-83): length = `Count`. -/
def ofCStr (buf : List Nat) : ViewM := ⟨some buf, (buf.takeWhile (· != 0)).length⟩
def last? (v : ViewM) : Option Nat := if v.len ≠ 0 then v.data.getLast? else none
end ViewM

inductive SvOp where
  | ctorP (r : Nat) (buf : List Nat) (len : Nat)   -- view of the first `len` units of `buf`
  | ctorZ (r : Nat) (buf : List Nat)               -- view of the C string in `buf ++ [0]`
  | ctorC (r s : Nat) | ctorM (r s : Nat)
  | asgC (r s : Nat) | asgM (r s : Nat) | asgZ (r : Nat) (buf : List Nat)
  | reset (r : Nat)
  | cmp (k r s : Nat) | cmpU (k r : Nat) (u : List Nat)
deriving Repr

abbrev SvSt := Nat → ViewM

def SvOp.step (op : SvOp) (st : SvSt) : SvSt × Out :=
  match op with
  | .ctorP r b n => (setR st r (ViewM.ofPtr b n), .none)
  | .ctorZ r b => (setR st r (ViewM.ofCStr (b ++ [0])), .none)
  | .ctorC r s => (setR st r (st s), .none)
  | .ctorM r s => let v := st s; (setR (setR st s ViewM.empty) r v, .none)
  | .asgC r s => (if r = s then st else setR st r (st s), .none)
  | .asgM r s => (if r = s then st else setR (setR st r (st s)) s ViewM.empty, .none)
  | .asgZ r b => (setR st r (ViewM.ofCStr (b ++ [0])), .none)
  | .reset r => (setR st r ViewM.empty, .none)
  | .cmp k r s => (st, .bool (compareOp k (st r).data (st s).data))
  | .cmpU k r u => (st, .bool (compareOp (if k = 6 then 0 else k) (st r).data u))

def svRun : List SvOp → SvSt → SvSt
  | [], st => st
  | op :: ops, st => svRun ops (op.step st).1

def svInit : SvSt := fun _ => ViewM.empty

def svOuts : List SvOp → SvSt → List Out
  | [], _ => []
  | op :: ops, st => (op.step st).2 :: svOuts ops (op.step st).1

def SvOp.spec (op : SvOp) (st : SeqAbs) : SeqAbs × Out :=
  match op with
  | .ctorP r b n => (setR st r (b.take n), .none)
  | .ctorZ r b => (setR st r (b.takeWhile (· != 0)), .none)
  | .ctorC r s => (setR st r (st s), .none)
  | .ctorM r s => let v := st s; (setR (setR st s []) r v, .none)
  | .asgC r s => (setR st r (st s), .none)
  | .asgM r s => (if r = s then st else setR (setR st r (st s)) s [], .none)
  | .asgZ r b => (setR st r (b.takeWhile (· != 0)), .none)
  | .reset r => (setR st r [], .none)
  | .cmp k r s => (st, .bool (compareOp k (st r) (st s)))
  | .cmpU k r u => (st, .bool (compareOp (if k = 6 then 0 else k) (st r) u))

def svSpecRun : List SvOp → SeqAbs → SeqAbs
  | [], st => st
  | op :: ops, st => svSpecRun ops (op.spec st).1

def svSpecOuts : List SvOp → SeqAbs → List Out
  | [], _ => []
  | op :: ops, st => (op.spec st).2 :: svSpecOuts ops (op.spec st).1

end Qentem.Seq
