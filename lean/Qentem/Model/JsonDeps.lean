import Qentem.Model.Json
import Qentem.Model.Unicode
import Qentem.Model.StrToNum
/-
The concrete sub-routines the JSON parser is linked with: the `JSONUtils::UnEscape` model
(`Model/Unicode.lean`, character width `w`) and the `Digit::StringToNumber` model
(`Model/StrToNum.lean`).  A failed checked read inside either of them is a fault of the parser.
-/
namespace Qentem.Json

def kindOf : Qentem.StrToNum.Kind → NumKind
  | .notANumber => .notANumber
  | .natural => .natural
  | .integer => .integer
  | .real => .real

/-- `JSONUtils::UnEscape(content + start, len, stream)` on an empty stream. -/
def unEscapeDep (w : Nat) (c : Array Nat) (start len : Nat) : M (Nat × List Nat) :=
  match Qentem.Unicode.unEscapeA w (c.toList.drop start) len [] with
  | some (stream, ret) => .ok (ret, stream)
  | none => .error (.oobRead (start + len) c.size)

/-- `Digit::StringToNumber(number, content, offset, length)` -/
def strToNumDep (c : Array Nat) (offset length : Nat) : M NumRes :=
  match Qentem.StrToNum.strToNum c.toList offset length with
  | some r => .ok ⟨kindOf r.kind, r.bits, r.offset⟩
  | none => .error (.oobRead length c.size)

def jsonDeps (w : Nat) : Deps := ⟨unEscapeDep w, strToNumDep⟩

end Qentem.Json
