import Qentem.Model.Value
import Qentem.Model.Group
/-
Operation sequences over a forest of named values (the roots of `Env`).

A *target* is reached the way a caller reaches it: a root followed by a chain of subscripts
(`operator[]`/`Get`), every one of which vivifies (`updPath`).  A *source* operand is a root followed by
a chain of `GetValue` calls that does not cross a pointer (`getAt`); when the chain yields `nullptr`
the operation is not performed.  Two-operand operations are performed only between different roots
(no aliasing between the operands; self copy/move assignment of a whole root is the guarded no-op of
Value.hpp:209,243), which is also how the harness drives the real code.
No proofs in this file.
-/
namespace Qentem.Value
open Doc

structure Loc where
  root : Nat
  path : List Sel
  deriving Repr, Inhabited

inductive Op where
  /-- every `operator=(scalar or string)` overload: `x` is the resulting value. -/
  | assign (t : Loc) (x : Doc)
  /-- `operator=(const StringT*)` with a null pointer: only the subscripts act. -/
  | touch (t : Loc)
  /-- `operator=(ValueType)`. -/
  | setType (t : Loc) (k : Nat)
  /-- `operator=(const Value&)`, copy construction. -/
  | copy (t s : Loc)
  /-- `operator=(Value&&)`, move construction. -/
  | move (t s : Loc)
  /-- `operator=(ObjectT&&)` / `(const ObjectT&)` from a copy of the source's object. -/
  | assignObj (t s : Loc)
  /-- `operator=(ArrayT&&)` / `(const ArrayT&)` from a copy of the source's array. -/
  | assignArr (t s : Loc)
  /-- `SetPointerToValue(&root r)`; `none` is the null pointer. -/
  | setPtr (t : Loc) (r : Option Nat)
  /-- every `operator+=(scalar or string)` overload. -/
  | append (t : Loc) (x : Doc)
  /-- `operator+=(Value&&)`. -/
  | appendMove (t s : Loc)
  /-- `operator+=(const Value&)`. -/
  | appendCopy (t s : Loc)
  /-- `operator+=(ObjectT&&)` / `(const ObjectT&)` with a copy of the source's object. -/
  | appendObj (t s : Loc)
  /-- `operator+=(ArrayT&&)` / `(const ArrayT&)` with a copy of the source's array. -/
  | appendArr (t s : Loc)
  /-- `AddPointerToValue`. -/
  | addPtr (t : Loc) (r : Option Nat)
  /-- `Insert(key, Value&&)` with a temporary. -/
  | insert (t : Loc) (k : Key) (x : Doc)
  /-- `Insert(key, Value&&)` moving from a source. -/
  | insertMove (t : Loc) (k : Key) (s : Loc)
  /-- `Merge(Value&&)`. -/
  | mergeMove (t s : Loc)
  /-- `Merge(const Value&)`. -/
  | mergeCopy (t s : Loc)
  | remove (t : Loc) (k : Key)
  | removeIdx (t : Loc) (i : Nat)
  | reset (t : Loc)
  | compress (t : Loc)
  /-- `target = Value{ValueType(k), n}` (reserve constructor, `k` = Object or Array). -/
  | reserve (t : Loc) (k n : Nat)
  /-- `GetObject()->Clear()` / `GetArray()->Clear()` on the target. -/
  | clear (t : Loc)
  /-- a container-typed overload (`ObjectT` / `ArrayT` / `StringT`, kind 2 / 3 / 4) with the container taken from
  any location of the forest, also inside the destination, an ancestor of it, or the destination itself:
  `add = false`: `operator=` / construction followed by move assignment; `add = true`: `operator+=`;
  `mv = false`: the `const&` overload, `mv = true`: the `&&` overload (the source container is left moved-out).
  Value semantics: the destination reference is obtained first, then the operand is read (snapshot), then
  assigned. -/
  | container (t s : Loc) (kind : Nat) (add mv : Bool)
  /-- `source.GroupBy(root dest, key)`. -/
  | groupBy (dest : Nat) (s : Loc) (k : Key)
  deriving Repr, Inhabited

def envSet (env : Env) (r : Nat) (d : Doc) : Env := env.set r d

/-- act on the target reference. -/
def onTarget (env : Env) (t : Loc) (f : Doc → Doc) : Env :=
  envSet env t.root (updPath t.path f (envGet env t.root))

/-- the source operand, when the operation may be performed. -/
def source (env : Env) (t s : Loc) : Option Doc :=
  if t.root = s.root then none else getAt (envGet env s.root) s.path

/-- a moved-from (or `Reset`) source. -/
def clearSource (env : Env) (s : Loc) : Env :=
  envSet env s.root (modAt (envGet env s.root) s.path (fun _ => undef))

/-- One operation. The flag is the return value of `GroupBy` (`true` for everything else). -/
def step (fmtReal : Nat → List Nat) (op : Op) (env : Env) : Env × Bool :=
  match op with
  | .assign t x => (onTarget env t (fun _ => x), true)
  | .touch t => (onTarget env t id, true)
  | .setType t k =>
      (onTarget env t (fun d => match assignType k d with
                                | some d' => d'
                                | none => d), true)
  | .copy t s =>
      match source env t s with
      | some x => (onTarget env t (fun _ => copyDoc x), true)
      | none => (env, true)
  | .move t s =>
      match source env t s with
      | some x => (onTarget (clearSource env s) t (fun _ => x), true)
      | none => (env, true)
  | .assignObj t s =>
      match source env t s with
      | some (obj c sl) => (onTarget env t (fun _ => copyDoc (obj c sl)), true)
      | _ => (env, true)
  | .assignArr t s =>
      match source env t s with
      | some (arr items) => (onTarget env t (fun _ => copyDoc (arr items)), true)
      | _ => (env, true)
  | .setPtr t (some r) => (onTarget env t (fun _ => ptr r), true)
  | .setPtr t none =>
      (onTarget env t (fun d => match d with
                                | ptr r => ptr r
                                | _ => resetPayload d), true)
  | .append t x => (onTarget env t (pushDoc x), true)
  | .appendMove t s =>
      match source env t s with
      | some x => (onTarget (clearSource env s) t (addValue id x), true)
      | none => (env, true)
  | .appendCopy t s =>
      match source env t s with
      | some x => (onTarget env t (addValue copyDoc x), true)
      | none => (env, true)
  | .appendObj t s =>
      match source env t s with
      | some (obj c sl) =>
          (onTarget env t (fun d => match copyDoc (obj c sl) with
                                    | obj c' sl' => addObj c' sl' d
                                    | _ => d), true)
      | _ => (env, true)
  | .appendArr t s =>
      match source env t s with
      | some (arr items) => (onTarget env t (addArr (copyItems items)), true)
      | _ => (env, true)
  | .addPtr t (some r) => (onTarget env t (pushDoc (ptr r)), true)
  | .addPtr t none => (onTarget env t (pushDoc undef), true)
  | .insert t k x => (onTarget env t (updKey k (fun _ => x)), true)
  | .insertMove t k s =>
      match source env t s with
      | some x => (onTarget (clearSource env s) t (updKey k (fun _ => x)), true)
      | none => (env, true)
  | .mergeMove t s =>
      match source env t s with
      | some x => (onTarget (clearSource env s) t (mergeInto id x), true)
      | none => (env, true)
  | .mergeCopy t s =>
      match source env t s with
      | some x => (onTarget env t (mergeInto copyDoc x), true)
      | none => (env, true)
  | .remove t k => (onTarget env t (removeKey k), true)
  | .removeIdx t i => (onTarget env t (removeIdx i), true)
  | .reset t => (onTarget env t (fun _ => undef), true)
  | .compress t => (onTarget env t compress, true)
  | .reserve t k n =>
      match reservedDoc k n with
      | some x => (onTarget env t (fun _ => x), true)
      | none => (onTarget env t id, true)
  | .clear t => (onTarget env t clearDoc, true)
  | .container t s kind add mv =>
      let env1 := onTarget env t id
      match getAt (envGet env1 s.root) s.path with
      | some x =>
          if isContainerKind kind x then
            let payload := if mv then x else copyDoc x
            let env2 := if mv then envSet env1 s.root (modAt (envGet env1 s.root) s.path movedOut) else env1
            let f : Doc → Doc :=
              if add then
                (match payload with
                 | obj c sl => addObj c sl
                 | arr items => addArr items
                 | p => pushDoc p)
              else (fun _ => payload)
            (envSet env2 t.root (refUpd t.path f (envGet env2 t.root)), true)
          else (env1, true)
      | none => (env1, true)
  | .groupBy dest s k =>
      if dest = s.root then (env, true) else
      match getAt (envGet env s.root) s.path with
      | some x =>
          let r := groupByA fmtReal env x k (envGet env dest)
          (envSet env dest r.2, r.1)
      | none => (env, true)

/-- A whole sequence; the environments after every step (newest last). -/
def run (fmtReal : Nat → List Nat) : List Op → Env → List (Env × Bool)
  | [], _ => []
  | op :: rest, env =>
    let r := step fmtReal op env
    r :: run fmtReal rest r.1

def runFinal (fmtReal : Nat → List Nat) : List Op → Env → Env
  | [], env => env
  | op :: rest, env => runFinal fmtReal rest (step fmtReal op env).1

end Qentem.Value
