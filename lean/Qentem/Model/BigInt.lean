/-
Model of `Include/BigInt.hpp` (BigInt<Number_T, Width_T> and the DoubleSize helper structs) and of
`Platform::FindFirstBit / FindLastBit` (Include/Platform.hpp:316-375, the GCC/Clang branch).

Parameters.  `W` = TypeWidth() (bits of Number_T), the word count n = MaxIndex()+1 is the length of
`words`.  A word is a `Nat < 2^W`; every C++ assignment to a Number_T is written with an explicit
`% 2^W` (integer promotion of 8/16-bit words followed by truncation on assignment is exactly that).
`SizeT32` indexes are `Nat`; where the C++ subtracts under a guard that excludes wrap-around the
model uses natural subtraction (noted at the site).

Mutation → values.  The object is the value `Big = {words, idx}` (storage_[], index_).  Every
`storage_[i]` read/write goes through `rd`/`wr`, which fail with a `Fault` when `i ≥ n` (checked
semantics: the theorem is "never fails").  `while`/`do-while` loops are structural recursions on the
loop counter where the C++ counter runs down to zero, otherwise on a fuel argument (exhaustion is
the fault `.fuel`; the theorems show it is never reached).

Code map (line numbers of Include/BigInt.hpp):
  add/addLoop 221-242 · sub/subLoop/trim 244-267 · multiply/mulFrom 269-277 · divide/divFrom 279-301
  shiftRight (moveDown, zeroTop, shrBits) 303-343 · shiftLeft (moveUp, zeroLow, trimIdx, shlBits) 345-402
  findFirstBit/findLastBit 404-416 · clear 422-429 · comparisons 137-183 · narrow 113-135
  assign (operator=(number)) 83-94 · opNarrow 499-528 · opWide 530-622 · copy 483-497 (operator=(const BigInt&),
  operator=(BigInt&&) = copy then src.Clear(); `Op2`/`step2` run them between two objects)
  mulNative/divNative 611-681 (DoubleSize<_,8|16|32>) · divHand/mulHand 684-788 (DoubleSize<_,64>,
  transcribed for any half width h, W = 2h).
No proofs in this file; core Lean only.
-/
namespace Qentem.BigInt

inductive Fault where
  | oobRead (i n : Nat)
  | oobWrite (i n : Nat)
  | divZero
  | scanZero      -- __builtin_ctz / __builtin_clz of 0 (undefined)
  | fuel
  deriving Repr, DecidableEq

abbrev M := Except Fault

structure Big where
  words : List Nat
  idx : Nat
  deriving Repr, DecidableEq

/-- `W` = bits per word; `hand` = the `DoubleSize<Number_T, 64U>` specialisation (half-word
algorithms, `initial_shift` computed by `Divide`) rather than the native double-width one. -/
structure Cfg where
  W : Nat
  hand : Bool
  deriving Repr, DecidableEq

/-- The configuration the C++ selects for a word type of `W` bits. -/
def Cfg.std (W : Nat) : Cfg := ⟨W, W == 64⟩

def rd (ws : List Nat) (i : Nat) : M Nat :=
  if h : i < ws.length then .ok ws[i] else .error (.oobRead i ws.length)

def wr (ws : List Nat) (i v : Nat) : M (List Nat) :=
  if i < ws.length then .ok (ws.set i v) else .error (.oobWrite i ws.length)

/-- MaxIndex() -/
def maxIndex (ws : List Nat) : Nat := ws.length - 1

/-- The mathematical integer held by the storage: Σ words[i]·2^(iW). -/
def valW (W : Nat) : List Nat → Nat
  | [] => 0
  | w :: ws => w + 2 ^ W * valW W ws

def Big.val (W : Nat) (s : Big) : Nat := valW W s.words

/-- A value-initialised object (`storage_{0}`, `index_{0}`) of n words. -/
def zero (n : Nat) : Big := ⟨List.replicate n 0, 0⟩

/-! ### Platform bit scans (value must be non-zero, else undefined) -/

def ctzAux : Nat → Nat → Nat
  | 0, _ => 0
  | f + 1, v => if v % 2 == 1 then 0 else 1 + ctzAux f (v / 2)

/-- index of the lowest set bit (`__builtin_ctz`) of a non-zero value -/
def ctz (v : Nat) : Nat := ctzAux (v.log2 + 1) v

def platFindFirstBit (v : Nat) : M Nat := if v == 0 then .error .scanZero else .ok (ctz v)
def platFindLastBit (v : Nat) : M Nat := if v == 0 then .error .scanZero else .ok v.log2

/-! ### DoubleSize helpers.  Both return `(high, low)`. -/

/-- `DoubleSize<_, 8|16|32>::Multiply`: `(number·multiplier) >> W` and the truncated product. -/
def mulNative (W a b : Nat) : Nat × Nat :=
  let p := (a * b) % 2 ^ (2 * W)
  ((p >>> W) % 2 ^ W, p % 2 ^ W)

/-- `DoubleSize<_, 8|16|32>::Divide`: dividend = high:low in the double width. -/
def divNative (W hi lo d : Nat) : M (Nat × Nat) :=
  if d == 0 then .error .divZero else
  let dividend := ((hi <<< W) % 2 ^ (2 * W)) ||| lo
  .ok ((dividend % d) % 2 ^ W, (dividend / d) % 2 ^ W)

/-- `DoubleSize<_, 64>::Multiply` for half width `h` (`shift_ = h`, `mask_ = 2^h - 1`, words of 2h bits). -/
def mulHand (h number multiplier : Nat) : Nat × Nat :=
  let B := 2 ^ (2 * h)
  let mask := 2 ^ h - 1
  let number_low := number &&& mask
  let number_high := number
  let multiplier_low := multiplier &&& mask
  let number := (number_low * multiplier_low) % B
  let number_high := number_high >>> h
  let multiplier_low := (multiplier_low * number_high) % B
  let multiplier_low := (multiplier_low + (number >>> h)) % B
  let number := number &&& mask
  let multiplier := multiplier >>> h
  let number_high := (number_high * multiplier) % B
  let number_high := (number_high + (multiplier_low >>> h)) % B
  let multiplier_low := multiplier_low &&& mask
  let multiplier_low := (multiplier_low + number_low * multiplier) % B
  let number := number ||| ((multiplier_low <<< h) % B)
  let multiplier_low := multiplier_low >>> h
  let number_high := (number_high + multiplier_low) % B
  (number_high, number)

/-- One quotient-digit round of `DoubleSize<_, 64>::Divide` (lines 697-714 and 719-736):
returns `(quotient, dividend_high)`.  `dl` = divisor_low (upper half of the shifted divisor),
`dh` = divisor_high (lower half), `ds` = divisor_shifted. -/
def divRound (h hi dl dh ds : Nat) : Nat × Nat :=
  let B := 2 ^ (2 * h)
  let quotient := hi / dl
  let hi := hi % dl
  let reminder := (quotient * dh) % B
  let hi := (hi <<< h) % B
  if hi < reminder then
    let quotient := (quotient + B - 1) % B
    let (quotient, reminder) :=
      if reminder - hi > ds then ((quotient + B - 1) % B, (reminder + B - ds) % B) else (quotient, reminder)
    let reminder := (reminder + B - ds) % B
    (quotient, (hi + B - reminder) % B)
  else
    (quotient, (hi + B - reminder) % B)

/-- `DoubleSize<_, 64>::Divide` for half width `h`. -/
def divHand (h hi lo d shift : Nat) : M (Nat × Nat) :=
  let B := 2 ^ (2 * h)
  let mask := 2 ^ h - 1
  if d == 0 then .error .divZero else
  let carry := lo % d
  let lo := lo / d
  let ds := (d <<< shift) % B
  let dl := ds >>> h
  let dh := ds &&& mask
  let hi := (hi <<< shift) % B
  if dl == 0 then .error .divZero else
  let (q, hi) := divRound h hi dl dh ds
  let q := (q <<< h) % B
  let lo := (lo + q) % B
  let (q, hi) := divRound h hi dl dh ds
  let lo := (lo + q) % B
  let hi := hi >>> shift
  let original := hi
  let hi := (hi + carry) % B
  let (hi, lo) := if original > hi then ((hi + (B - d) % B) % B, (lo + 1) % B) else (hi, lo)
  let (hi, lo) := if hi ≥ d then (hi - d, (lo + 1) % B) else (hi, lo)
  .ok (hi, lo)

def dmul (c : Cfg) (a b : Nat) : Nat × Nat :=
  if c.hand then mulHand (c.W / 2) a b else mulNative c.W a b

def ddiv (c : Cfg) (hi lo d shift : Nat) : M (Nat × Nat) :=
  if c.hand then divHand (c.W / 2) hi lo d shift else divNative c.W hi lo d

/-! ### Add / Subtract -/

/-- the `while (index <= MaxIndex())` loop of `Add`; returns the storage and the final `index`. -/
def addLoop (W : Nat) : Nat → List Nat → Nat → Nat → M (List Nat × Nat)
  | 0, _, _, _ => .error .fuel
  | fuel + 1, ws, number, index =>
    if index ≤ maxIndex ws then do
      let tmp ← rd ws index
      let nw := (tmp + number) % 2 ^ W
      let ws ← wr ws index nw
      if nw > tmp then pure (ws, index) else addLoop W fuel ws 1 (index + 1)
    else pure (ws, index)

def add (W : Nat) (s : Big) (number index : Nat) : M Big :=
  if number != 0 then do
    let (ws, index) ← addLoop W (s.words.length + 1) s.words number index
    if index > maxIndex ws then pure ⟨ws, 0⟩
    else if index > s.idx then pure ⟨ws, index⟩
    else pure ⟨ws, s.idx⟩
  else pure s

def subLoop (W : Nat) : Nat → List Nat → Nat → Nat → M (List Nat × Nat)
  | 0, _, _, _ => .error .fuel
  | fuel + 1, ws, number, index =>
    if index ≤ maxIndex ws then do
      let tmp ← rd ws index
      let nw := (tmp + 2 ^ W - number) % 2 ^ W
      let ws ← wr ws index nw
      if nw < tmp then pure (ws, index) else subLoop W fuel ws 1 (index + 1)
    else pure (ws, index)

/-- `while ((index_ > 0U) && (storage_[index_] == 0)) --index_;` -/
def trim (ws : List Nat) : Nat → M Nat
  | 0 => pure 0
  | i + 1 => do
    let w ← rd ws (i + 1)
    if w == 0 then trim ws i else pure (i + 1)

def sub (W : Nat) (s : Big) (number index : Nat) : M Big :=
  if number != 0 then do
    let (ws, index) ← subLoop W (s.words.length + 1) s.words number index
    if index > maxIndex ws then pure ⟨ws, maxIndex ws⟩
    else if index ≥ s.idx then do
      let i ← trim ws s.idx
      pure ⟨ws, i⟩
    else pure ⟨ws, s.idx⟩
  else pure s

/-! ### Multiply / Divide by a word -/

/-- The do-while of `Multiply` for `index = i, i-1, …, 0` (the counter starts at `index_+1` and is
pre-decremented, so no wrap-around is possible). -/
def mulFrom (c : Cfg) (m : Nat) : Nat → Big → M Big
  | i, s => do
    let w ← rd s.words i
    let (hi, lo) := dmul c w m
    let ws ← wr s.words i lo
    let s ← add c.W ⟨ws, s.idx⟩ hi (i + 1)
    match i with
    | 0 => pure s
    | j + 1 => mulFrom c m j s

/-- `Multiply` (as repaired: the trim loop after the do-while keeps `index_` on the highest
non-zero word when the multiplier is zero). -/
def multiply (c : Cfg) (s : Big) (m : Nat) : M Big := do
  let s ← mulFrom c m s.idx s
  let i ← trim s.words s.idx
  pure ⟨s.words, i⟩

/-- `while (index != 0U) { --index; DoubleSize::Divide(remainder, storage_[index], …); }` -/
def divFrom (c : Cfg) (d shift : Nat) : Nat → List Nat → Nat → M (List Nat × Nat)
  | 0, ws, r => pure (ws, r)
  | i + 1, ws, r => do
    let lo ← rd ws i
    let (r, lo) ← ddiv c r lo d shift
    let ws ← wr ws i lo
    divFrom c d shift i ws r

/-- `Divide`: returns the new object and the remainder. -/
def divide (c : Cfg) (s : Big) (d : Nat) : M (Big × Nat) :=
  if d == 0 then .error .divZero else do
    let top ← rd s.words s.idx
    let remainder := top % d
    let ws ← wr s.words s.idx (top / d)
    let shift ← (if c.hand then do
        let b ← platFindLastBit d
        pure ((c.W - 1) - b)
      else pure 0 : M Nat)
    let (ws, remainder) ← divFrom c d shift s.idx ws remainder
    if s.idx > 0 then do
      let t ← rd ws s.idx
      pure (⟨ws, if t == 0 then s.idx - 1 else s.idx⟩, remainder)
    else pure (⟨ws, s.idx⟩, remainder)

/-! ### Clear, shifts -/

/-- `Clear()` from `index_ = i` -/
def clearFrom (ws : List Nat) : Nat → M (List Nat)
  | 0 => wr ws 0 0
  | i + 1 => do
    let ws ← wr ws (i + 1) 0
    clearFrom ws i

def clear (s : Big) : M Big := do
  let ws ← clearFrom s.words s.idx
  pure ⟨ws, 0⟩

/-- `do { storage_[index] = storage_[next]; ++index; ++next; } while (next <= index_);` -/
def moveDown (idx : Nat) : Nat → List Nat → Nat → Nat → M (List Nat)
  | 0, _, _, _ => .error .fuel
  | fuel + 1, ws, index, next => do
    let v ← rd ws next
    let ws ← wr ws index v
    if next + 1 ≤ idx then moveDown idx fuel ws (index + 1) (next + 1) else pure ws

/-- `do { storage_[index_] = 0; --index_; --move; } while (move != 0U);`  (reached with
`1 ≤ move ≤ index_`, so the decrements do not wrap). Returns storage and `index_`. -/
def zeroTop : Nat → List Nat → Nat → M (List Nat × Nat)
  | 0, ws, idx => do          -- move = 0 is excluded by `offset >= TypeWidth()`
    pure (ws, idx)
  | m + 1, ws, idx => do
    let ws ← wr ws idx 0
    match m with
    | 0 => pure (ws, idx - 1)
    | _ + 1 => zeroTop m ws (idx - 1)

/-- `while (index < index_) { storage_[index] |= storage_[index+1] << shift_size; ++index;
storage_[index] >>= offset; }` -/
def shrBits (W off idx : Nat) : Nat → List Nat → Nat → M (List Nat)
  | 0, _, _ => .error .fuel
  | fuel + 1, ws, index =>
    if index < idx then do
      let a ← rd ws index
      let b ← rd ws (index + 1)
      let ws ← wr ws index (a ||| ((b <<< (W - off)) % 2 ^ W))
      let c ← rd ws (index + 1)
      let ws ← wr ws (index + 1) (c >>> off)
      shrBits W off idx fuel ws (index + 1)
    else pure ws

/-- the `offset >= TypeWidth()` block of `ShiftRight` once `move <= index_` is known -/
def shrWords (s : Big) (move : Nat) : M Big := do
  let ws ← moveDown s.idx (s.idx + 1) s.words 0 move
  let (ws, idx) ← zeroTop move ws s.idx
  pure ⟨ws, idx⟩

/-- the `offset != 0U` block of `ShiftRight` (offset < W) -/
def shrSmall (W : Nat) (s : Big) (offset : Nat) : M Big :=
  if offset != 0 then do
    let w0 ← rd s.words 0
    let ws ← wr s.words 0 (w0 >>> offset)
    let ws ← shrBits W offset s.idx (s.idx + 1) ws 0
    if s.idx != 0 then do
      let t ← rd ws s.idx
      pure ⟨ws, if t == 0 then s.idx - 1 else s.idx⟩
    else pure ⟨ws, s.idx⟩
  else pure s

def shiftRight (W : Nat) (s : Big) (offset : Nat) : M Big :=
  if offset ≥ W then
    let move := offset / W
    let offset := offset - move * W
    if move > s.idx then clear s
    else do
      let s ← shrWords s move
      shrSmall W s offset
  else shrSmall W s offset

/-- `while (index_ != 0U) { --index_; storage_[index_ + move] = storage_[index_]; }` from index_ = i -/
def moveUp (move : Nat) (ws : List Nat) : Nat → M (List Nat)
  | 0 => pure ws
  | i + 1 => do
    let v ← rd ws i
    let ws ← wr ws (i + move) v
    moveUp move ws i

/-- `do { --move; storage_[move] = 0; } while (move != 0U);` (move ≥ 1) -/
def zeroLow (ws : List Nat) : Nat → M (List Nat)
  | 0 => pure ws              -- move = 0 is excluded by `offset >= TypeWidth()`
  | m + 1 => do
    let ws ← wr ws m 0
    match m with
    | 0 => pure ws
    | _ + 1 => zeroLow ws m

/-- `while ((index != 0U) && (storage_[index] == 0)) --index;` — the same loop shape as `trim`. -/
def trimIdx (ws : List Nat) (index : Nat) : M Nat := trim ws index

/-- `while (index != 0U) { storage_[index] |= storage_[index-1] >> shift_size; --index;
storage_[index] <<= offset; }` from `index = i` -/
def shlBits (W off : Nat) (ws : List Nat) : Nat → M (List Nat)
  | 0 => pure ws
  | i + 1 => do
    let a ← rd ws (i + 1)
    let b ← rd ws i
    let ws ← wr ws (i + 1) (a ||| (b >>> (W - off)))
    let c ← rd ws i
    let ws ← wr ws i ((c <<< off) % 2 ^ W)
    shlBits W off ws i

/-- the word-move block of `ShiftLeft` after the overflow test: `idx` = the (possibly reduced)
`index_`, `index` = the target top index. -/
def shlWords (ws : List Nat) (idx move index : Nat) : M Big := do
  let v ← rd ws idx
  let ws ← wr ws (idx + move) v
  let ws ← moveUp move ws idx
  let ws ← zeroLow ws move
  let index ← trimIdx ws index
  pure ⟨ws, index⟩

/-- the `offset != 0U` block of `ShiftLeft` (offset < W) -/
def shlSmall (W : Nat) (s : Big) (offset : Nat) : M Big :=
  if offset != 0 then do
    let index := s.idx
    let shiftSize := W - offset
    let t ← rd s.words index
    let carry := t >>> shiftSize
    let ws ← wr s.words index ((t <<< offset) % 2 ^ W)
    if s.idx != maxIndex ws then do
      let idx := s.idx + (if carry != 0 then 1 else 0)
      let u ← rd ws idx
      let ws ← wr ws idx (u ||| carry)
      let ws ← shlBits W offset ws index
      pure ⟨ws, idx⟩
    else do
      let ws ← shlBits W offset ws index
      pure ⟨ws, s.idx⟩
  else pure s

def shiftLeft (W : Nat) (s : Big) (offset : Nat) : M Big :=
  if offset ≥ W then
    let move := offset / W
    let offset := offset - move * W
    let index := s.idx + move
    if index > maxIndex s.words then
      let diff := index - maxIndex s.words
      if diff ≤ s.idx then do
        let s ← shlWords s.words (s.idx - diff) move (maxIndex s.words)
        shlSmall W s offset
      else clear s
    else do
      let s ← shlWords s.words s.idx move index
      shlSmall W s offset
  else shlSmall W s offset

/-! ### Bit scans, predicates, narrowing -/

/-- `while ((index < index_) && (storage_[index] == 0)) ++index;` -/
def firstNonZero (idx : Nat) : Nat → List Nat → Nat → M Nat
  | 0, _, _ => .error .fuel
  | fuel + 1, ws, index =>
    if index < idx then do
      let w ← rd ws index
      if w == 0 then firstNonZero idx fuel ws (index + 1) else pure index
    else pure index

def findFirstBit (W : Nat) (s : Big) : M Nat := do
  let index ← firstNonZero s.idx (s.idx + 1) s.words 0
  let w ← rd s.words index
  let b ← platFindFirstBit w
  pure (b + index * W)

def findLastBit (W : Nat) (s : Big) : M Nat := do
  let w ← rd s.words s.idx
  let b ← platFindLastBit w
  pure (b + s.idx * W)

inductive Cmp where
  | lt | le | gt | ge | eq | ne
  deriving Repr, DecidableEq

/-- `operator<, <=, >, >=, ==, !=` against a word (lines 137-183). -/
def cmpWord (s : Big) (r : Cmp) (number : Nat) : M Bool := do
  let w ← rd s.words 0
  pure <| match r with
    | .lt => s.idx == 0 && decide (w < number)
    | .le => s.idx == 0 && decide (w ≤ number)
    | .gt => s.idx != 0 || decide (w > number)
    | .ge => s.idx != 0 || decide (w ≥ number)
    | .eq => s.idx == 0 && w == number
    | .ne => s.idx != 0 || w != number

/-- the mirror image of a relation: `n r x ⇔ x (mirror r) n` -/
def Cmp.mirror : Cmp → Cmp
  | .lt => .gt | .le => .ge | .gt => .lt | .ge => .le | .eq => .eq | .ne => .ne

/-- The reversed friends `operator OP(const Number_T number, const BigInt &out)` (lines 141-183):
`number < out` is `out > number`, `number <= out` is `out >= number`, `number > out` is `out < number`,
`number >= out` is `out <= number`, `==`/`!=` delegate to themselves. -/
def rcmpWord (s : Big) (r : Cmp) (number : Nat) : M Bool := cmpWord s r.mirror number

def isBig (s : Big) : Bool := s.idx != 0
def notZero (s : Big) : M Bool := cmpWord s .ne 0
def isZero (s : Big) : M Bool := cmpWord s .eq 0
def number (s : Big) : M Nat := rd s.words 0

/-- `while (index > 0) { num |= storage_[index]; num <<= TypeWidth(); --index; }` on a K-bit `num` -/
def narrowLoop (W K : Nat) (ws : List Nat) : Nat → Nat → M Nat
  | 0, num => pure num
  | i + 1, num => do
    let w ← rd ws (i + 1)
    narrowLoop W K ws i (((num ||| w) <<< W) % 2 ^ K)

/-- `explicit operator N_Number_T()` for an unsigned type of `K` bits. -/
def narrow (W K : Nat) (s : Big) : M Nat :=
  if K ≤ W then do
    let w ← rd s.words 0
    pure (w % 2 ^ K)
  else do
    let maxI := K / W - 1
    let index := if maxI ≤ s.idx then maxI else s.idx
    let num ← narrowLoop W K s.words index 0
    let w ← rd s.words 0
    pure (num ||| w)

/-! ### Set / Or / And / Add / Subtract with an unsigned operand of K bits -/

inductive BOp where
  | set | or | and | add | sub
  deriving Repr, DecidableEq

/-- `while (index_ != 0U) { storage_[index_] = 0; --index_; }` (repaired narrow `And`) -/
def zeroHigh (ws : List Nat) : Nat → M (List Nat)
  | 0 => pure ws
  | i + 1 => do
    let ws ← wr ws (i + 1) 0
    zeroHigh ws i

/-- `doOperation<Op>(Number_T number)` (lines 499-528; `And` as repaired: the words above the
result are cleared). -/
def opNarrow (W : Nat) (op : BOp) (s : Big) (number : Nat) : M Big :=
  match op with
  | .add => add W s number 0
  | .sub => sub W s number 0
  | .or => do
    let w ← rd s.words 0
    let ws ← wr s.words 0 (w ||| number)
    pure ⟨ws, s.idx⟩
  | .and => do
    let w ← rd s.words 0
    let ws ← wr s.words 0 (w &&& number)
    let ws ← zeroHigh ws s.idx
    pure ⟨ws, 0⟩
  | .set => do
    let ws ← wr s.words 0 number
    pure ⟨ws, 0⟩

/-- the chunk loop of the wide `doOperation` (as repaired: bounded by `chunks = sizeof(N)*8/TypeWidth()`
and by `MaxIndex()`): `number` is what is left after the
previous `>>= TypeWidth()`; returns the object and the final `index`. -/
def wideLoop (W : Nat) (op : BOp) (chunks : Nat) : Nat → Big → Nat → Nat → M (Big × Nat)
  | 0, _, _, _ => .error .fuel
  | fuel + 1, s, number, index =>
    -- while ((index < chunks) && (index <= MaxIndex()) && (number != 0)): the two bounds keep a negative
    -- operand (arithmetic >>=, never zero) and an operand wider than the object inside the storage
    if index < chunks ∧ index ≤ maxIndex s.words ∧ number ≠ 0 then do
      let chunk := number % 2 ^ W
      let s ← match op with
        | .add => add W s chunk index
        | .sub => sub W s chunk index
        | .or => do
          let w ← rd s.words index
          let ws ← wr s.words index (w ||| chunk)
          pure (⟨ws, if index > s.idx then index else s.idx⟩ : Big)
        | .and => do
          let w ← rd s.words index
          let ws ← wr s.words index (w &&& chunk)
          pure (⟨ws, if (w &&& chunk) != 0 then index else s.idx⟩ : Big)
        | .set => do
          let ws ← wr s.words index chunk
          pure (⟨ws, s.idx + 1⟩ : Big)
      wideLoop W op chunks fuel s (number >>> W) (index + 1)
    else pure (s, index)

/-- `while (index <= last_index) { storage_[index] = 0; ++index; }` (repaired wide `And`) -/
def zeroUpTo (last : Nat) : Nat → List Nat → Nat → M (List Nat)
  | 0, _, _ => .error .fuel
  | fuel + 1, ws, index =>
    if index ≤ last then do
      let ws ← wr ws index 0
      zeroUpTo last fuel ws (index + 1)
    else pure ws

/-- `doOperation<Op>(N_Number_T number)` for an unsigned `N_Number_T` of `K ≠ W` bits. -/
def opWide (W K : Nat) (op : BOp) (s : Big) (number : Nat) : M Big := do
  let last := s.idx
  let low := number % 2 ^ W
  let s ← match op with
    | .add => add W s low 0
    | .sub => sub W s low 0
    | .or => do
      let w ← rd s.words 0
      let ws ← wr s.words 0 (w ||| low)
      pure (⟨ws, s.idx⟩ : Big)
    | .and => do
      let w ← rd s.words 0
      let ws ← wr s.words 0 (w &&& low)
      pure (⟨ws, 0⟩ : Big)
    | .set => do
      let ws ← wr s.words 0 low
      pure (⟨ws, 0⟩ : Big)
  let (s, index) ← if K / W > 1 then wideLoop W op (K / W) (K / W + 1) s (number >>> W) 1 else pure (s, 1)
  if op == .and then do
    let ws ← zeroUpTo last (last + 2) s.words index
    pure ⟨ws, s.idx⟩
  else pure s

/-- What a (possibly negative) operand `x` of a signed `K`-bit type is to the object: `Number_T(number)`
sign-extends to the word, the chunk loop walks the two's-complement pattern of the operand's own width —
the unsigned value of `x` modulo `2^max(K, W)`. For `x ≥ 0` this is `x`. -/
def signedOperand (W K : Nat) (x : Int) : Nat := (x % (2 : Int) ^ (max K W)).toNat

/-- The overload the compiler picks: the non-template one when the operand type is Number_T. -/
def opK (W K : Nat) (op : BOp) (s : Big) (number : Nat) : M Big :=
  if K == W then opNarrow W op s number else opWide W K op s number

/-- `while (index > index_) { storage_[index] = 0; --index; }` of `operator=(number)` -/
def zeroDownTo (idx : Nat) (ws : List Nat) : Nat → M (List Nat)
  | 0 => pure ws
  | i + 1 => if i + 1 > idx then do
      let ws ← wr ws (i + 1) 0
      zeroDownTo idx ws i
    else pure ws

/-- `operator=(const N_Number_T number)` -/
def assign (W K : Nat) (s : Big) (number : Nat) : M Big := do
  let index := s.idx
  let s ← opK W K .set s number
  let ws ← zeroDownTo s.idx s.words index
  pure ⟨ws, s.idx⟩

/-- `copy(src)` (operator=(const BigInt &)); `dst` is `*this`. -/
def copyLoop (src : List Nat) (sidx : Nat) : Nat → List Nat → Nat → M (List Nat × Nat)
  | 0, _, _ => .error .fuel
  | fuel + 1, ws, index =>
    if index ≤ sidx then do
      let v ← rd src index
      let ws ← wr ws index v
      copyLoop src sidx fuel ws (index + 1)
    else pure (ws, index)

/-- `while (index_ >= index) { storage_[index_] = 0; --index_; }` from `index_ = i` (as repaired by
da1b555; `index = src.index_ + 1 ≥ 1`, so the loop has stopped when `index_` reaches 0). -/
def zeroAbove (index : Nat) (ws : List Nat) : Nat → M (List Nat)
  | 0 => pure ws
  | i + 1 => if i + 1 ≥ index then do
      let ws ← wr ws (i + 1) 0
      zeroAbove index ws i
    else pure ws

def copy (dst src : Big) : M Big := do
  let (ws, index) ← copyLoop src.words src.idx (src.idx + 2) dst.words 0
  let ws ← zeroAbove index ws dst.idx
  pure ⟨ws, src.idx⟩

/-! ### Operations as data, one step, and the exact-integer specification -/

inductive SelfKind where
  | add | sub | or | and | mul | div
  deriving Repr, DecidableEq

inductive Op where
  | assign (K x : Nat)          -- x = N(x)
  | bop (op : BOp) (K x : Nat)  -- |= &= += -= with a K-bit operand (op ≠ set)
  | mul (x : Nat)
  | div (d : Nat)
  | shl (k : Nat)
  | shr (k : Nat)
  | cmp (r : Cmp) (x : Nat)     -- x OP number
  | rcmp (r : Cmp) (x : Nat)    -- number OP x
  | isBig | notZero | isZero | number
  | narrow (K : Nat)
  | ffb | flb
  | clear
  -- the rest of the public surface (thin wrappers around the operations above)
  | construct (K x : Nat)       -- BigInt(N(x)): converting constructor, on a value-initialised object
  | addAt (x i : Nat)           -- Add(x, i)
  | subAt (x i : Nat)           -- Subtract(x, i)
  | divq (d : Nat)              -- operator/=  (Divide, remainder discarded)
  | self (k : SelfKind)         -- b OP= b.Number()  /  b.Divide(b.Number())
  | setIndex (i : Nat)          -- SetIndex(i)  (raw)
  | store (i v : Nat)           -- Storage()[i] = v  (raw, through the non-const accessor)
  | maxIndexC | typeWidthC | totalBitsC | sizeOfTypeC   -- the static constexpr members
  deriving Repr, DecidableEq

inductive Ret where
  | none
  | nat (v : Nat)
  | bool (b : Bool)
  deriving Repr, DecidableEq

def step (c : Cfg) (s : Big) : Op → M (Big × Ret)
  | .assign K x => do let s ← assign c.W K s x; pure (s, .none)
  | .bop op K x => do let s ← opK c.W K op s x; pure (s, .none)
  | .mul x => do let s ← multiply c s x; pure (s, .none)
  | .div d => do let (s, r) ← divide c s d; pure (s, .nat r)
  | .shl k => do let s ← shiftLeft c.W s k; pure (s, .none)
  | .shr k => do let s ← shiftRight c.W s k; pure (s, .none)
  | .cmp r x => do let b ← cmpWord s r x; pure (s, .bool b)
  | .rcmp r x => do let b ← rcmpWord s r x; pure (s, .bool b)
  | .isBig => pure (s, .bool (isBig s))
  | .notZero => do let b ← notZero s; pure (s, .bool b)
  | .isZero => do let b ← isZero s; pure (s, .bool b)
  | .number => do let v ← number s; pure (s, .nat v)
  | .narrow K => do let v ← narrow c.W K s; pure (s, .nat v)
  | .ffb => do let v ← findFirstBit c.W s; pure (s, .nat v)
  | .flb => do let v ← findLastBit c.W s; pure (s, .nat v)
  | .clear => do let s ← clear s; pure (s, .none)
  | .construct K x => do let s ← opK c.W K .set (zero s.words.length) x; pure (s, .none)
  | .addAt x i => do let s ← add c.W s x i; pure (s, .none)
  | .subAt x i => do let s ← sub c.W s x i; pure (s, .none)
  | .divq d => do let (s, _) ← divide c s d; pure (s, .none)
  | .self k => do
    let w ← number s          -- the operand is passed by value before the object is modified
    match k with
    | .add => do let s ← opK c.W c.W .add s w; pure (s, .none)
    | .sub => do let s ← opK c.W c.W .sub s w; pure (s, .none)
    | .or => do let s ← opK c.W c.W .or s w; pure (s, .none)
    | .and => do let s ← opK c.W c.W .and s w; pure (s, .none)
    | .mul => do let s ← multiply c s w; pure (s, .none)
    | .div => do let (s, r) ← divide c s w; pure (s, .nat r)
  | .setIndex i => pure (⟨s.words, i⟩, .none)
  | .store i v => do let ws ← wr s.words i v; pure (⟨ws, s.idx⟩, .none)
  | .maxIndexC => pure (s, .nat (maxIndex s.words))
  | .typeWidthC => pure (s, .nat c.W)
  | .totalBitsC => pure (s, .nat (s.words.length * c.W))
  | .sizeOfTypeC => pure (s, .nat (c.W / 8))

def run (c : Cfg) : Big → List Op → M (Big × List Ret)
  | s, [] => pure (s, [])
  | s, o :: os => do
    let (s, r) ← step c s o
    let (s, rs) ← run c s os
    pure (s, r :: rs)

/-! ### Two objects: copy / move assignment between `x` and a second object `t` -/

inductive Op2 where
  | on (o : Op)   -- an operation on `x`
  | save          -- t = x   (copy assignment)
  | load          -- x = t   (copy assignment)
  | move          -- x = std::move(t)  (copy, then t.Clear())
  | selfCopy      -- x = x             (guarded by `this != &src`)
  | selfMove      -- x = std::move(x)  (guarded by `this != &src`)
  | copyCtor      -- t rebuilt as BigInt(x)             (copy constructor on a value-initialised object)
  | moveCtor      -- x rebuilt as BigInt(std::move(t))  (move constructor, then t.Clear())
  deriving Repr, DecidableEq

structure Pair where
  x : Big
  t : Big
  deriving Repr, DecidableEq

def step2 (c : Cfg) (p : Pair) : Op2 → M (Pair × Ret)
  | .on o => do let (x, r) ← step c p.x o; pure (⟨x, p.t⟩, r)
  | .save => do let t ← copy p.t p.x; pure (⟨p.x, t⟩, .none)
  | .load => do let x ← copy p.x p.t; pure (⟨x, p.t⟩, .none)
  | .move => do
    let x ← copy p.x p.t
    let t ← clear p.t
    pure (⟨x, t⟩, .none)
  | .selfCopy => pure (p, .none)
  | .selfMove => pure (p, .none)
  | .copyCtor => do
    -- `index_{src.index_}`, words 0..index_ copied into zero-initialised storage
    let t ← copy (zero p.t.words.length) p.x
    pure (⟨p.x, t⟩, .none)
  | .moveCtor => do
    let x ← copy (zero p.x.words.length) p.t
    let t ← clear p.t
    pure (⟨x, t⟩, .none)

def run2 (c : Cfg) : Pair → List Op2 → M (Pair × List Ret)
  | p, [] => pure (p, [])
  | p, o :: os => do
    let (p, r) ← step2 c p o
    let (p, rs) ← run2 c p os
    pure (p, r :: rs)

def cmpSpec (r : Cmp) (a x : Nat) : Bool :=
  match r with
  | .lt => decide (a < x) | .le => decide (a ≤ x) | .gt => decide (a > x)
  | .ge => decide (a ≥ x) | .eq => a == x | .ne => a != x

/-- 2-adic valuation of a non-zero number (fuel = the number itself is enough). -/
def val2 (a : Nat) : Nat := ctzAux (a + 1) a

/-- The specification: what the operation does to the mathematical integer `a` held by an object of
`n` words of `W` bits, and what it returns — `none` when the exact result does not fit the object
or the operation's precondition fails (zero divisor, bit scan of zero, operand wider than its
declared type). -/
def specStep (W n : Nat) (a : Nat) : Op → Option (Nat × Ret)
  | .assign K x => if x < 2 ^ K ∧ x < 2 ^ (n * W) then some (x, .none) else none
  | .bop op K x =>
    if x < 2 ^ K then
      match op with
      | .add => if a + x < 2 ^ (n * W) then some (a + x, .none) else none
      | .sub => if x ≤ a then some (a - x, .none) else none
      | .or => if x < 2 ^ (n * W) then some (a ||| x, .none) else none
      | .and => if x < 2 ^ (n * W) then some (a &&& x, .none) else none
      | .set => none
    else none
  | .mul x => if x < 2 ^ W ∧ a * x < 2 ^ (n * W) then some (a * x, .none) else none
  | .div d => if 0 < d ∧ d < 2 ^ W then some (a / d, .nat (a % d)) else none
  | .shl k => if a * 2 ^ k < 2 ^ (n * W) then some (a * 2 ^ k, .none) else none
  | .shr k => some (a / 2 ^ k, .none)
  | .cmp r x => if x < 2 ^ W then some (a, .bool (cmpSpec r a x)) else none
  | .rcmp r x => if x < 2 ^ W then some (a, .bool (cmpSpec r x a)) else none
  | .isBig => some (a, .bool (decide (a ≥ 2 ^ W)))
  | .notZero => some (a, .bool (a != 0))
  | .isZero => some (a, .bool (a == 0))
  | .number => some (a, .nat (a % 2 ^ W))
  | .narrow K => some (a, .nat (a % 2 ^ K))
  | .ffb => if a ≠ 0 then some (a, .nat (val2 a)) else none
  | .flb => if a ≠ 0 then some (a, .nat a.log2) else none
  | .clear => some (0, .none)
  | .construct K x => if x < 2 ^ K ∧ x < 2 ^ (n * W) then some (x, .none) else none
  | .addAt x i => if x < 2 ^ W ∧ a + x * 2 ^ (W * i) < 2 ^ (n * W) then some (a + x * 2 ^ (W * i), .none) else none
  | .subAt x i => if x < 2 ^ W ∧ x * 2 ^ (W * i) ≤ a then some (a - x * 2 ^ (W * i), .none) else none
  | .divq d => if 0 < d ∧ d < 2 ^ W then some (a / d, .none) else none
  | .self k =>
    let w := a % 2 ^ W
    match k with
    | .add => if a + w < 2 ^ (n * W) then some (a + w, .none) else none
    | .sub => some (a - w, .none)
    | .or => some (a ||| w, .none)
    | .and => some (a &&& w, .none)
    | .mul => if a * w < 2 ^ (n * W) then some (a * w, .none) else none
    | .div => if 0 < w then some (a / w, .nat (a % w)) else none
  | .setIndex _ => none       -- raw mutators: outside the property (the model still follows them)
  | .store _ _ => none
  | .maxIndexC => some (a, .nat (n - 1))
  | .typeWidthC => some (a, .nat W)
  | .totalBitsC => some (a, .nat (n * W))
  | .sizeOfTypeC => some (a, .nat (W / 8))

/-- The specification for two objects holding `a` (x) and `b` (t). -/
def specStep2 (W n : Nat) (a b : Nat) : Op2 → Option (Nat × Nat × Ret)
  | .on o =>
    match specStep W n a o with
    | some (a', r) => some (a', b, r)
    | none => none
  | .save => some (a, a, .none)
  | .load => some (b, b, .none)
  | .move => some (b, 0, .none)
  | .selfCopy => some (a, b, .none)
  | .selfMove => some (a, b, .none)
  | .copyCtor => some (a, a, .none)
  | .moveCtor => some (b, 0, .none)

/-- The little-endian base-2^W digits of `a`, `n` of them. -/
def digits (W : Nat) : Nat → Nat → List Nat
  | 0, _ => []
  | n + 1, a => a % 2 ^ W :: digits W n (a / 2 ^ W)

/-- Index of the highest non-zero word (0 for none). -/
def topIndex : List Nat → Nat
  | [] => 0
  | _ :: ws => if ws.all (· == 0) then 0 else 1 + topIndex ws

/-- The canonical object holding `a`. -/
def canon (W n a : Nat) : Big := ⟨digits W n a, topIndex (digits W n a)⟩

end Qentem.BigInt
