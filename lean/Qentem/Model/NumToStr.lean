import Qentem.Generated.NumToStr
/-!
Model of the number formatter of `Include/Digit.hpp` (C10, C11) — core Lean only, executable.

What is transcribed (line numbers of the tree the model was written against):

* `IntToString<false/true>`  (Digit.hpp 101-140)  → `intFwdLoop`, `intRevLoop`: two digits at a
  time through `DigitTable1`, last digit through `DigitTable2`; the table reads are *checked*
  (`tbl`), the stack buffer of `max_number_of_digits` units is checked by `intFwd`/`intRev`.
* `NumberToString` integer branch (69-98)          → `intToString` (sign, two's-complement negate).
* `realToString` (738-894)                          → `realToString`: exponent split, the `digits`
  estimate `⌊e·30103/100000⌋+1`, drop / shift logic, multiplication by powers of five with the
  mid-loop right shifts (`mulLoop`), `bigIntDropDigits` (`dropDigits`).
* `bigIntToString` (930-945)                        → `bigIntToString`.
* `formatStringNumberDefault` (961-1060)            → `formatDefault` = `defaultRound`, `defaultFraction`, `finishNumber`
* `formatStringNumberFixed<Fixed_T>` (1062-1157)    → `formatFixed` = `fixedRound`, `fixedFraction`, `finishNumber`, `fixedPad`
* `roundStringNumber` (1159-1198)                   → `roundStringNumber`
* `insertPowerOfTen`, `insertZeros`, `insertZerosLarge` → `insertPowerOfTen`, `zerosShort`, `zerosLarge`.

Conventions.

* Code units are `Nat`; the stream is the **whole** `List Nat` (what it held before the call
  followed by the text being built).  `started_at`/`index`/`dot_index` are absolute offsets as in
  the C++.  The in-place pokes `storage[index] = c` are `wrAt`: they fail (`Fault.oobWrite`) when
  `index ≥ Length()` — this is how the repaired carry-digit overflow would show — and fail with
  `Fault.prefixWrite` when `index < started_at` (a write into what the stream already held).
  Reads are `rdAt` (`Fault.oobRead` at or past `Length()`).
* `SizeT`/`SizeT32` are 32-bit unsigned.  Where the C++ subtracts and relies on the operands being
  ordered the model uses the checked `csub` (`Fault.sizeWrap`); the one place that wraps on purpose
  (`--index; index += n`) is written as the sum it computes.
* `BigInt<SizeT64, 1344>` (double) / `<SizeT64, 320>` (float) is used by this code as an exact
  multi-word integer: the model keeps a `Nat` and *checks* every product and left shift against
  the declared width (`Fault.bigOverflow`), keeps the loop structure (`mulLoop`, `dropDigits`,
  `bigIntToStringLoop`), `Index()` is `⌊log2 v / 64⌋`, `IsBig()` is `v ≥ 2^64`.  That the C++ words
  hold exactly this integer is property C19's model, not repeated here.
* Loops carry a fuel argument (structural recursion, so the kernel can evaluate the model);
  running out of fuel is `Fault.fuel`.
* The bit pattern is a `Nat` (`< 2^64` or `< 2^32`); `Cfg` carries the `RealNumberInfo` constants,
  all taken from `Qentem.Generated.NumToStr` (re-extracted from the headers on every run).
-/
namespace Qentem.NumToStr
open Qentem.Generated.NumToStr

inductive Fault where
  | oobRead (i n : Nat)
  | oobWrite (i n : Nat)
  | prefixWrite (i start : Nat)
  | tableIndex (i n : Nat)
  | bigOverflow (bits : Nat)
  | sizeWrap (site : Nat)
  | fuel
  deriving Repr, DecidableEq

abbrev M := Except Fault

instance {α : Type} [DecidableEq α] : DecidableEq (M α)
  | .ok a, .ok b => if h : a = b then isTrue (by rw [h]) else isFalse (by intro e; cases e; exact h rfl)
  | .error a, .error b => if h : a = b then isTrue (by rw [h]) else isFalse (by intro e; cases e; exact h rfl)
  | .ok _, .error _ => isFalse (by intro e; cases e)
  | .error _, .ok _ => isFalse (by intro e; cases e)

def Fault.name : Fault → String
  | .oobRead i n => s!"oobRead:{i}:{n}"
  | .oobWrite i n => s!"oobWrite:{i}:{n}"
  | .prefixWrite i n => s!"prefixWrite:{i}:{n}"
  | .tableIndex i n => s!"tableIndex:{i}:{n}"
  | .bigOverflow b => s!"bigOverflow:{b}"
  | .sizeWrap k => s!"sizeWrap:{k}"
  | .fuel => "fuel"

/-! ### primitives -/

def tbl (t : List Nat) (i : Nat) : M Nat :=
  match t[i]? with
  | some v => pure v
  | none => throw (.tableIndex i t.length)

/-- unsigned subtraction the C++ relies on not to wrap -/
def csub (site a b : Nat) : M Nat :=
  if b ≤ a then pure (a - b) else throw (.sizeWrap site)

def rdAt (s : List Nat) (i : Nat) : M Nat :=
  match s[i]? with
  | some v => pure v
  | none => throw (.oobRead i s.length)

/-- `storage[i] = v` for a run that starts at `start`. -/
def wrAt (start : Nat) (s : List Nat) (i v : Nat) : M (List Nat) :=
  if i < start then throw (.prefixWrite i start)
  else if i < s.length then pure (s.set i v)
  else throw (.oobWrite i s.length)

/-- `StringStream::InsertAt(ch, index)`: nothing happens at or past `Length()`. -/
def insertAt (start : Nat) (s : List Nat) (ch i : Nat) : M (List Nat) :=
  if i < start then throw (.prefixWrite i start)
  else if i < s.length then pure (s.take i ++ ch :: s.drop i)
  else pure s

/-- `StringStream::Reverse(index)` -/
def reverseFrom (s : List Nat) (start : Nat) : List Nat :=
  s.take start ++ (s.drop start).reverse

/-- `StringStream::StepBack(len)` (ignored when `len > Length()`). -/
def stepBack (start : Nat) (s : List Nat) (len : Nat) : M (List Nat) :=
  if len ≤ s.length then
    (if start ≤ s.length - len then pure (s.take (s.length - len)) else throw (.prefixWrite (s.length - len) start))
  else pure s

/-- `insertZeros`: `Write(DigitString::Zeros, length)` — reads `length` units of a 19-unit literal. -/
def zerosShort (n : Nat) : M (List Nat) :=
  if n ≤ S1.zerosLength then pure (S1.zeros.take n) else throw (.oobRead n S1.zerosLength)

/-- `insertZerosLarge`: 19 zeros at a time, then the rest.  A wrapped 32-bit length would write
gigabytes; the model treats more than 2^20 as the size wrap it is. -/
def zerosLarge (n : Nat) : M (List Nat) :=
  if n ≤ 1048576 then pure (List.replicate n Ch.zero) else throw (.sizeWrap 99)

/-! ### integers -/

/-- `IntToString<false>`: fills the buffer from its end; `acc` is what has been written. -/
def intFwdLoop : Nat → Nat → List Nat → M (List Nat)
  | 0, _, _ => throw .fuel
  | fuel + 1, n, acc =>
    if 10 ≤ n then do
      let index := (n % 100) * 2
      let lo ← tbl digitTable1 (index + 1)
      let hi ← tbl digitTable1 index
      intFwdLoop fuel (n / 100) (hi :: lo :: acc)
    else if n ≠ 0 ∨ acc = [] then do
      let d ← tbl digitTable2 n
      pure (d :: acc)
    else pure acc

/-- `IntToString<true>`: least significant digit first. -/
def intRevLoop : Nat → Nat → List Nat → M (List Nat)
  | 0, _, _ => throw .fuel
  | fuel + 1, n, acc =>
    if 10 ≤ n then do
      let index := (n % 100) * 2
      let lo ← tbl digitTable1 (index + 1)
      let hi ← tbl digitTable1 index
      intRevLoop fuel (n / 100) (acc ++ [lo, hi])
    else if n ≠ 0 ∨ acc = [] then do
      let d ← tbl digitTable2 n
      pure (acc ++ [d])
    else pure acc

def intFuel : Nat := 40

/-- `max_number_of_digits` of the on-stack buffer for an integer of `bytes` bytes. -/
def maxDigitsOf (bytes : Nat) : Nat := ((bytes * 8 * 30103) / 100000) + 1

/-- digits of `n` through a buffer of `maxDigitsOf bytes` units (a longer run is a stack overflow) -/
def intFwd (bytes n : Nat) : M (List Nat) := do
  let ds ← intFwdLoop intFuel n []
  if ds.length ≤ maxDigitsOf bytes then pure ds else throw (.oobWrite ds.length (maxDigitsOf bytes))

def intRev (bytes n : Nat) : M (List Nat) := do
  let ds ← intRevLoop intFuel n []
  if ds.length ≤ maxDigitsOf bytes then pure ds else throw (.oobWrite ds.length (maxDigitsOf bytes))

/-- `NumberToString(stream, number)` for an integer type of `bytes` bytes; `raw` is the bit
pattern (`< 2^(8·bytes)`), negative when `signed` and the top bit is set.  The negation is the
two's-complement one (what `qn.Integer = -qn.Integer; … qn.Natural` yields on this target). -/
def intToString (s : List Nat) (bytes : Nat) (signed : Bool) (raw : Nat) : M (List Nat) :=
  let w := 8 * bytes
  if signed && decide (2 ^ (w - 1) ≤ raw) then do
    let ds ← intFwd bytes ((2 ^ w - raw) % 2 ^ w)
    pure (s ++ Ch.negative :: ds)
  else do
    let ds ← intFwd bytes raw
    pure (s ++ ds)

/-! ### BigInt used as an exact integer -/

def wordBits : Nat := 64

/-- `BigInt::Index()` -/
def bigIndex (v : Nat) : Nat := if v = 0 then 0 else Nat.log2 v / wordBits

/-- product / left shift checked against the declared width -/
def bigFit (totalBits v : Nat) : M Nat :=
  if v < 2 ^ totalBits then pure v else throw (.bigOverflow totalBits)

/-- `Platform::FindFirstBit` (count of trailing zero bits; argument is non-zero) -/
def findFirstBitLoop : Nat → Nat → Nat → Nat
  | 0, _, k => k
  | fuel + 1, n, k => if n % 2 = 1 then k else findFirstBitLoop fuel (n / 2) (k + 1)

def findFirstBit (n : Nat) : Nat := findFirstBitLoop 64 n 0

/-- `bigIntDropDigits` (returns the BigInt and whether any remainder was non-zero) -/
def dropDigitsLoop : Nat → Nat → Nat → Bool → M (Nat × Nat × Bool)
  | 0, _, _, _ => throw .fuel
  | fuel + 1, b, drop, inexact =>
    if C8.maxPowerOfFive ≤ drop then do
      let p ← tbl C8.powerOfFive C8.maxPowerOfFive
      dropDigitsLoop fuel (b / p) (drop - C8.maxPowerOfFive) (inexact || (b % p != 0))
    else pure (b, drop, inexact)

def dropDigits (b drop : Nat) : M (Nat × Bool) := do
  let (b, drop, inexact) ← dropDigitsLoop (drop / C8.maxPowerOfFive + 1) b drop false
  if drop ≠ 0 then do
    let p ← tbl C8.powerOfFive drop
    pure (b / p, inexact || (b % p != 0))
  else pure (b, inexact)

/-- the `do { b_int *= 5^27; if (Index() >= max_index && shift >= 64) { b_int >>= 64; shift -= 64; }
times -= 27; } while (times >= 27)` loop -/
def mulLoop (totalBits maxIndex : Nat) : Nat → Nat → Nat → Nat → M (Nat × Nat × Nat)
  | 0, _, _, _ => throw .fuel
  | fuel + 1, b, shift, times => do
    let p ← tbl C8.powerOfFive C8.maxPowerOfFive
    let b ← bigFit totalBits (b * p)
    let (b, shift) := if maxIndex ≤ bigIndex b ∧ C8.maxShift ≤ shift then (b >>> C8.maxShift, shift - C8.maxShift) else (b, shift)
    let times := times - C8.maxPowerOfFive
    if C8.maxPowerOfFive ≤ times then mulLoop totalBits maxIndex fuel b shift times else pure (b, shift, times)

/-- `bigIntToString`: 19 decimal digits at a time, least significant first. -/
def bigIntToStringLoop : Nat → Nat → List Nat → M (Nat × List Nat)
  | 0, _, _ => throw .fuel
  | fuel + 1, b, s =>
    if 2 ^ wordBits ≤ b then do
      let ds ← intRev 8 (b % C8.maxPowerOfTenValue)
      let z ← csub 1 C8.maxPowerOfTen ds.length
      let zs ← zerosShort z
      bigIntToStringLoop fuel (b / C8.maxPowerOfTenValue) (s ++ ds ++ zs)
    else pure (b, s)

def bigIntToString (totalBits : Nat) (s : List Nat) (b : Nat) : M (List Nat) := do
  let (b, s) ← bigIntToStringLoop (totalBits / 63 + 2) b s
  if b ≠ 0 then do
    let ds ← intRev 8 b
    pure (s ++ ds)
  else pure s

/-! ### rounding and the three layouts -/

/-- `while ((number < last) && (*number == c)) { ++number; ++index; }` -/
def skipWhile (c : Nat) : Nat → List Nat → Nat → Nat
  | 0, _, index => index
  | fuel + 1, s, index =>
    if index + 1 < s.length ∧ s[index]? = some c then skipWhile c fuel s (index + 1) else index

/-- the sticky scan `for (lower = storage + started_at; lower < number; ++lower)` -/
def anyNonZero (s : List Nat) (start stop : Nat) : Bool :=
  ((s.take stop).drop start).any (· != Ch.zero)

/-- the test of `roundStringNumber`: the sticky scan of the lower digits, the rounding digit against '5',
and for an exact tie the parity of the next digit (when there is one).  `true` = increment. -/
def roundTest (start : Nat) (s : List Nat) (index : Nat) (roundUp : Bool) : M Bool := do
  let roundUp := roundUp || anyNonZero s start index
  let d ← rdAt s index
  let tieUp ←
    if d = Ch.five ∧ !roundUp then
      (if index + 1 < s.length then do
        let nx ← rdAt s (index + 1)
        pure (decide ((nx - Ch.zero) % 2 = 1))
       else pure false)
    else pure false
  pure (decide (Ch.five < d) || (decide (d = Ch.five) && (roundUp || tieUp)))

/-- the `if (round) { … }` block of `roundStringNumber` (`index` is already past the rounding digit;
`number` and `index` advance together over the nines) -/
def roundCarry (start : Nat) (s : List Nat) (index : Nat) : M (List Nat × Nat × Bool) :=
  let j := skipWhile Ch.nine s.length s index
  if s.length ≤ j then
    pure (s ++ [Ch.one], j, true)                -- `number > last`: the carry digit is appended
  else do
    let dj ← rdAt s j
    if dj = Ch.nine then do
      let s ← wrAt start s j Ch.one
      pure (s, j, true)
    else do
      let s ← wrAt start s j (dj + 1)
      pure (s, j, false)

/-- `roundStringNumber`; returns the stream, the new `index` and `power_increased`. -/
def roundStringNumber (start : Nat) (s : List Nat) (index : Nat) (roundUp : Bool) : M (List Nat × Nat × Bool) := do
  let round ← roundTest start s index roundUp
  if round then roundCarry start s (index + 1) else pure (s, index + 1, false)

/-- the zero-restoring loop `while (zeros != 0) { --index; storage[index] = '0'; --zeros; }` -/
def restoreZeros (start : Nat) : Nat → List Nat → Nat → M (List Nat × Nat)
  | 0, s, index => pure (s, index)
  | zeros + 1, s, index => do
    let index ← csub 2 index 1
    let s ← wrAt start s index Ch.zero
    restoreZeros start zeros s index

/-- `insertPowerOfTen` -/
def insertPowerOfTen (s : List Nat) (power : Nat) (positive : Bool) : M (List Nat) := do
  let s := s ++ [Ch.e, if positive then Ch.positive else Ch.negative]
  let s := if power < 10 then s ++ [Ch.zero] else s
  intToString s 4 false power

/-! `formatStringNumberDefault` and `formatStringNumberFixed` are long functions that mutate
`stream`, `index`, `power`, `power_increased`, `fraction_length`; the model cuts each of them into
the consecutive blocks of the C++ body (same order of effects), passing those variables along. -/

/-- `formatStringNumberDefault`, first block (`if (number_length > precision) { … }`): rounding and the
positive-exponent decision.  Returns `(stream, index, power, power_increased, fraction_length)`. -/
def defaultRound (start : Nat) (s : List Nat) (numberLength precision calculatedDigits fractionLength : Nat)
    (isPositiveExp roundUp : Bool) : M (List Nat × Nat × Nat × Bool × Nat) :=
  if precision < numberLength then do
    -- `--index; index += number_length - precision` wraps through 2^32 and back
    let r ← roundStringNumber start s (start + (numberLength - precision) - 1) roundUp
    if isPositiveExp then do
      let a ← csub 4 numberLength fractionLength
      let extra := if calculatedDigits ≤ precision then 0 else calculatedDigits - (precision + 1)
      let diff ← csub 5 (a + extra) (if r.2.2 then 0 else 1)
      if precision ≤ diff then
        pure (r.1, skipWhile Ch.zero r.1.length r.1 r.2.1, diff, r.2.2, 0)
      else pure (r.1, r.2.1, 0, r.2.2, fractionLength)
    else pure (r.1, r.2.1, 0, r.2.2, fractionLength)
  else pure (s, start, 0, false, fractionLength)

/-- second block (`if (fraction_length != 0) { … }`): the fraction layout.  Returns `(stream, index, power)`. -/
def defaultFraction (start : Nat) (s : List Nat) (index power numberLength fractionLength : Nat)
    (powerIncreased : Bool) : M (List Nat × Nat × Nat) :=
  if fractionLength ≠ 0 then
    let dotIndex := start + fractionLength
    let index := skipWhile Ch.zero s.length s index
    if numberLength ≤ fractionLength then
      let diff := if numberLength < fractionLength then fractionLength - numberLength else 0
      if !powerIncreased then
        if diff < 4 then do
          let zs ← zerosShort diff
          pure (s ++ zs ++ [Ch.dot, Ch.zero], index, power)
        else pure (s, index, diff + 1)
      else if diff ≠ 0 ∧ diff < 5 then do
        let zs ← zerosShort (diff - 1)
        pure (s ++ zs ++ [Ch.dot, Ch.zero], index, power)
      else pure (s, index, diff)
    else if index < dotIndex then do
      let s ← insertAt start s Ch.dot dotIndex
      pure (s, index, power)
    else do
      let zeros ←
        if powerIncreased then csub 6 numberLength fractionLength
        else pure (let rem := index - start; if fractionLength < rem then rem - fractionLength else 0)
      let r ← restoreZeros start zeros s index
      pure (r.1, r.2, power)
  else pure (s, index, power)

/-- `stream.Reverse(started_at); stream.StepBack(index - started_at);` -/
def finishNumber (start : Nat) (s : List Nat) (index : Nat) : M (List Nat) := do
  let back ← csub 7 index start
  stepBack start (reverseFrom s start) back

/-- `formatStringNumberDefault` -/
def formatDefault (start : Nat) (s : List Nat) (precision calculatedDigits fractionLength : Nat)
    (isPositiveExp roundUp : Bool) : M (List Nat) := do
  let numberLength ← csub 3 s.length start
  let a ← defaultRound start s numberLength precision calculatedDigits fractionLength isPositiveExp roundUp
  let b ← defaultFraction start a.1 a.2.1 a.2.2.1 numberLength a.2.2.2.2 a.2.2.2.1
  let s ← finishNumber start b.1 b.2.1
  if b.2.2 ≠ 0 then do
    let s ← insertAt start s Ch.dot (start + 1)
    insertPowerOfTen s b.2.2 isPositiveExp
  else pure s

/-- `formatStringNumberFixed`, rounding block (`if (fraction_length > precision) { … }`).
Returns `(stream, index, power_increased)`. -/
def fixedRound (start : Nat) (s : List Nat) (precision fractionLength : Nat) (roundUp : Bool) :
    M (List Nat × Nat × Bool) :=
  if precision < fractionLength then do
    let r ← roundStringNumber start s (start + (fractionLength - (precision + 1))) roundUp
    pure (r.1, skipWhile Ch.zero r.1.length r.1 r.2.1, r.2.2)
  else pure (s, start, false)

/-- the layout block that follows (`if (fraction_only) … else if (index < dot_index) … else …`).
Returns `(stream, index)`. -/
def fixedFraction (start : Nat) (s : List Nat) (index numberLength fractionLength diff : Nat)
    (powerIncreased : Bool) : M (List Nat × Nat) :=
  let dotIndex := start + fractionLength
  if numberLength ≤ fractionLength then
    if index < s.length ∨ powerIncreased then
      if diff ≠ 0 then do
        let r ←
          if powerIncreased then do
            let index ← csub 9 index (if index = s.length then 1 else 0)
            let s ← wrAt start s index Ch.one
            pure (s, index)
          else pure (s, index)
        let diff ← csub 10 diff (if powerIncreased then 1 else 0)
        let zs ← zerosLarge diff
        pure (r.1 ++ zs ++ [Ch.dot, Ch.zero], r.2)
      else if !powerIncreased then pure (s ++ [Ch.dot, Ch.zero], index)
      else pure (s, index)
    else do
      let index ← csub 11 index 1
      let s ← wrAt start s index Ch.zero
      pure (s, index)
  else if index < dotIndex then do
    let s ← insertAt start s Ch.dot dotIndex
    pure (s, index)
  else do
    let zeros ←
      if powerIncreased then csub 12 numberLength fractionLength
      else pure (let rem := index - start; if fractionLength < rem then rem - fractionLength else 0)
    restoreZeros start zeros s index

/-- the `if constexpr (Fixed_T)` tail: the point and the zeros up to `precision` -/
def fixedPad (start : Nat) (s : List Nat) (index precision fractionLength : Nat)
    (fractionOnly powerIncreased : Bool) : M (List Nat) :=
  let dotIndex := start + fractionLength
  if precision = 0 then pure s
  else if dotIndex = index ∨ s.length - start = 1 ∨ (!fractionOnly ∧ powerIncreased) then do
    let zs ← zerosLarge precision
    pure (s ++ Ch.dot :: zs)
  else if fractionOnly then do
    let have_ ← csub 15 s.length (start + 2)     -- 2 is the length of "0."
    let n ← csub 16 precision have_
    let zs ← zerosLarge n
    pure (s ++ zs)
  else do
    let n ← csub 17 precision (dotIndex - index)
    let zs ← zerosLarge n
    pure (s ++ zs)

/-- `formatStringNumberFixed<Fixed_T>` (`fixedT = true` is Fixed, `false` is SemiFixed) -/
def formatFixed (fixedT : Bool) (start : Nat) (s : List Nat) (precision fractionLength : Nat)
    (roundUp : Bool) : M (List Nat) := do
  let numberLength ← csub 8 s.length start
  let diff := if numberLength < fractionLength then fractionLength - numberLength else 0
  let fractionOnly := decide (numberLength ≤ fractionLength)
  let r ←
    if fractionLength ≠ 0 then
      if diff ≤ precision then do
        let a ← fixedRound start s precision fractionLength roundUp
        let b ← fixedFraction start a.1 a.2.1 numberLength fractionLength diff a.2.2
        pure (b.1, b.2, a.2.2)
      else do
        let index ← csub 13 (start + numberLength) 1
        let s ← wrAt start s index Ch.zero
        pure (s, index, false)
    else pure (s, start, false)
  let s ← finishNumber start r.1 r.2.1
  if fixedT then fixedPad start s r.2.1 precision fractionLength fractionOnly r.2.2
  else pure s

/-! ### realToString -/

structure Cfg where
  bias : Nat
  mantissaSize : Nat
  signMask : Nat
  exponentMask : Nat
  mantissaMask : Nat
  leadingBit : Nat
  maxCut : Nat
  totalBits : Nat
  maxIndex : Nat
  bits : Nat
  deriving Repr

def f64 : Cfg := ⟨F64.bias, F64.mantissaSize, F64.signMask, F64.exponentMask, F64.mantissaMask, F64.leadingBit,
  F64.maxCut, F64.bigIntTotalBits, F64.bigIntMaxIndex, 64⟩
def f32 : Cfg := ⟨F32.bias, F32.mantissaSize, F32.signMask, F32.exponentMask, F32.mantissaMask, F32.leadingBit,
  F32.maxCut, F32.bigIntTotalBits, F32.bigIntMaxIndex, 32⟩

-- format kinds are numbered as `Digit::RealFormatType`: `fmtDefault`, `fmtFixed`, `fmtSemiFixed`
-- come from the generated constants.

/-- the `if (no_fraction) { … }` block of `realToString` after `drop` is known: shift the mantissa to the
integer part, then `bigIntDropDigits`.  Returns `(b_int, round_up)`. -/
def runNoFraction (c : Cfg) (mantissa firstShift positiveExp drop : Nat) : M (Nat × Bool) := do
  let mShift := c.mantissaSize + drop
  let r ←
    if mShift < positiveExp then do
      let b ← bigFit c.totalBits (mantissa <<< (positiveExp - mShift))
      pure (b, false)
    else
      -- any non-zero bit dropped here makes a trailing '5' more than a tie
      pure (mantissa >>> (mShift - positiveExp), decide (firstShift < mShift - positiveExp))
  if drop ≠ 0 then do
    let d ← dropDigits r.1 drop
    pure (d.1, r.2 || d.2)
  else pure r

/-- the `else { … }` block of `realToString` once `fraction_length` and `needed` (before `++needed`) are
known: `b_int >>= first_shift`, the multiplications by powers of five, the final right shift.
Returns `(b_int, fraction_length, round_up)`. -/
def runFraction (c : Cfg) (mantissa firstShift fl0 needed0 : Nat) : M (Nat × Nat × Bool) := do
  let needed := needed0 + 1 -- for rounding
  let fractionLength := if needed < fl0 then needed else fl0
  let shift0 := if needed < fl0 then fl0 - needed else 0
  let roundUp := decide (needed < fl0)
  let b := mantissa >>> firstShift
  let r ←
    if C8.maxPowerOfFive ≤ fractionLength then
      -- `max_index = b_int.MaxIndex()`: low words are dropped only when the BigInt is about to run out of room
      mulLoop c.totalBits c.maxIndex (fractionLength / C8.maxPowerOfFive + 1) b shift0 fractionLength
    else pure (b, shift0, fractionLength)
  let b ← if r.2.2 ≠ 0 then do
      let p ← tbl C8.powerOfFive r.2.2
      bigFit c.totalBits (r.1 * p)
    else pure r.1
  pure (b >>> r.2.1, fractionLength, roundUp)

/-- The digit run: everything `realToString` does between the zero test and `bigIntToString`.
Returns `(b_int, digits, fraction_length, is_positive_exp, round_up)`. -/
def digitRun (c : Cfg) (mantissa0 biasField precision fmt : Nat) : M (Nat × Nat × Nat × Bool × Bool) := do
  let mantissa := if biasField ≠ 0 then mantissa0 ||| c.leadingBit else mantissa0 <<< 1
  let firstShift := findFirstBit mantissa
  let e := biasField >>> c.mantissaSize
  let isPositiveExp := decide (c.bias ≤ e)
  let positiveExp := if c.bias ≤ e then e - c.bias else c.bias - e
  let firstBit ← csub 20 c.mantissaSize firstShift
  let expActual := positiveExp + (if biasField = 0 then firstBit else 0)
  let digits := (expActual * 30103) / 100000 + 1
  let fixed := decide (fmt = fmtSemiFixed) || decide (fmt = fmtFixed)
  let extraDigits := decide (precision < digits) && !fixed
  let bigOffset := decide (firstBit ≤ positiveExp)
  let noFraction := isPositiveExp && (bigOffset || extraDigits)
  if noFraction then do
    let drop ← if !extraDigits then pure 0 else csub 21 digits (precision + 1)
    let r ← runNoFraction c mantissa firstShift positiveExp drop
    pure (r.1, digits, 0, isPositiveExp, r.2)
  else do
    let fn ←
      if isPositiveExp then do
        let fl ← csub 22 firstBit positiveExp
        let needed ← if fixed then pure precision else csub 23 precision digits
        pure (fl, needed)
      else pure (firstBit + positiveExp, digits + precision)
    let r ← runFraction c mantissa firstShift fn.1 fn.2
    pure (r.1, digits, r.2.1, isPositiveExp, r.2.2)

/-- the non-zero finite case of `realToString`, after the sign has been written: the digit run,
`start_at = stream.Length()`, `bigIntToString`, and the layout selected by `format.Type` -/
def realFinite (c : Cfg) (s : List Nat) (mantissa biasField precision fmt : Nat) : M (List Nat) := do
  let r ← digitRun c mantissa biasField precision fmt
  let start := s.length
  let s ← bigIntToString c.totalBits s r.1
  if fmt = fmtSemiFixed then formatFixed false start s precision r.2.2.1 r.2.2.2.2
  else if fmt = fmtFixed then formatFixed true start s precision r.2.2.1 r.2.2.2.2
  else formatDefault start s precision r.2.1 r.2.2.1 r.2.2.2.1 r.2.2.2.2

/-- `realToString<Float_T>(stream, number, format)`; `s` is what the stream holds. -/
def realToString (c : Cfg) (s : List Nat) (number precision fmt : Nat) : M (List Nat) := do
  -- Default follows %g: a precision of zero is taken as one
  let precision := if fmt = fmtDefault ∧ precision = 0 then 1 else precision
  let biasField := number &&& c.exponentMask
  if biasField ≠ c.exponentMask then
    let s := if number &&& c.signMask ≠ 0 then s ++ [Ch.negative] else s
    let mantissa := number &&& c.mantissaMask
    if mantissa ≠ 0 ∨ biasField ≠ 0 then
      realFinite c s mantissa biasField precision fmt
    else
      let s := s ++ [Ch.zero]
      if fmt = fmtFixed ∧ precision ≠ 0 then do
        let zs ← zerosLarge precision
        pure (s ++ Ch.dot :: zs)
      else pure s
  else if number &&& c.mantissaMask = 0 then
    let s := if number &&& c.signMask ≠ 0 then s ++ [Ch.negative] else s
    pure (s ++ S1.infinity)
  else pure (s ++ S1.notANumber)

/-- text only (empty destination stream) -/
def realText (c : Cfg) (number precision fmt : Nat) : M (List Nat) := realToString c [] number precision fmt

/-- C11: 17 significant digits for a double, 9 for a float, Default format -/
def format17 (bits : Nat) : M (List Nat) := realText f64 bits 17 fmtDefault
def format9 (bits : Nat) : M (List Nat) := realText f32 bits 9 fmtDefault

end Qentem.NumToStr
