/-
Model of
  * `Unicode::ToUTF<Char_T>`            Include/Unicode.hpp:42-90   (`toUTF8`, `toUTF16`, `toUTF32`, `toUTF`)
  * `Digit::HexStringToNumber<SizeT32>` Include/Digit.hpp:142-183   (`hexLoop`, `hexToNumber`)
  * `JSONUtils::UnEscape`               Include/JSONUtils.hpp:79-196 (`unEscapeLoop`, `unEscapeA`, `unEscape`)
and the specification side written from the Unicode standard (`utf8Decode`, `utf16Decode`,
`utf32Decode`), not from the code.

Conventions.  Code units and code points are `Nat`.  A `Char_T(x)` conversion of a `SizeT32`
value is written `x % 2^(8·w)`; `SizeT32` arithmetic that the C++ performs on `code` is written
with an explicit `% 2^32`.  The argument `u` of the encoders is a `SizeT32`, i.e. `u < 2^32`;
nothing else is assumed about it (surrogates and values ≥ 0x110000 are encoded the way the code
encodes them).

`UnEscape(content, length, stream)` is a cursor loop over `offset`/`offset2` that appends to a
stream and returns a `SizeT`.  The A-model `unEscapeLoop` keeps exactly those two cursors, the
stream contents as a list, and reads the buffer `c` only through checked accessors: `c[i]?`
(one unit) and `slice` (the `stream.Write(content + offset2, offset - offset2)` block copy).
`none` = a read outside the buffer (or exhausted fuel; `Proofs/UnicodeUnEscape` shows neither
happens when `length ≤ c.length`).  `some (stream', r)`: `r` is the returned `SizeT`
(`0` = rejected; the stream may then hold a partial result, as in the code), `stream'` the
stream contents afterwards.  `length` is a separate argument because the callers pass a
length, not a terminator.  The loop `while (offset < length)` becomes recursion on a fuel
argument started at `length + 1`.

`unEscapeB` is the same routine as a recursion on the unread suffix (pending run =
`content[offset2, offset)` carried as a list); `Proofs/UnicodeUnEscape.unEscapeA_eq_B` links
the two.  The JSON parser model should use `unEscapeA` for runs and `unEscapeB` for proofs.
-/
namespace Qentem.Unicode

/-! ## Encoders (Unicode.hpp) -/

/-- `UnicodeToUTF<Char_T, Stream_T, 1>::ToUTF`, Unicode.hpp:47-68. -/
def toUTF8 (u : Nat) : List Nat :=
  if u < 0x80 then [u % 256]
  else if u < 0x800 then
    [(0xC0 ||| (u >>> 6)) % 256, (0x80 ||| (u &&& 0x3F)) % 256]
  else if u < 0x10000 then
    [(0xE0 ||| (u >>> 12)) % 256, (0x80 ||| ((u >>> 6) &&& 0x3F)) % 256, (0x80 ||| (u &&& 0x3F)) % 256]
  else
    [(0xF0 ||| (u >>> 18)) % 256, (0x80 ||| ((u >>> 12) &&& 0x3F)) % 256,
     (0x80 ||| ((u >>> 6) &&& 0x3F)) % 256, (0x80 ||| (u &&& 0x3F)) % 256]

/-- `UnicodeToUTF<Char_T, Stream_T, 2>::ToUTF`, Unicode.hpp:72-82 (`unicode -= 0x10000U` cannot
wrap on that branch). -/
def toUTF16 (u : Nat) : List Nat :=
  if u < 0x10000 then [u % 65536]
  else
    let v := u - 0x10000
    [(0xD800 ||| (v >>> 10)) % 65536, (0xDC00 ||| (v &&& 0x3FF)) % 65536]

/-- `UnicodeToUTF<Char_T, Stream_T, 4>::ToUTF`, Unicode.hpp:86-90. -/
def toUTF32 (u : Nat) : List Nat := [u % 4294967296]

/-- `Unicode::ToUTF<Char_T>` dispatched on `sizeof(Char_T)` (1, 2, otherwise 4). -/
def toUTF (w : Nat) (u : Nat) : List Nat :=
  if w = 1 then toUTF8 u else if w = 2 then toUTF16 u else toUTF32 u

/-! ## Hex digits (Digit.hpp) -/

/-- The three digit ranges of `HexStringToNumber`: value of one unit, `none` = loop `break`. -/
def hexVal? (d : Nat) : Option Nat :=
  if 48 ≤ d ∧ d ≤ 57 then some (d - 48)        -- '0'..'9' : digit - '0'
  else if 65 ≤ d ∧ d ≤ 70 then some (d - 55)   -- 'A'..'F' : digit - '7'
  else if 97 ≤ d ∧ d ≤ 102 then some (d - 87)  -- 'a'..'f' : digit - 'W'
  else none

/-- `HexStringToNumber<SizeT32>(value, offset&, end_offset)`, Digit.hpp:142-176, with
`n = end_offset - offset` iterations left, checked reads.  Returns (number, offset). -/
def hexLoop (c : List Nat) : Nat → Nat → Nat → Option (Nat × Nat)
  | 0, off, num => some (num, off)
  | n + 1, off, num =>
    match c[off]? with
    | none => none
    | some d =>
      match hexVal? d with
      | some v => hexLoop c n (off + 1) (((num <<< 4) % 4294967296) ||| v)
      | none => some (num, off)

/-- `HexStringToNumber<SizeT32>(content + base, SizeT{4})` (Digit.hpp:178-182). -/
def hexToNumber (c : List Nat) (base : Nat) : Option Nat :=
  (hexLoop c 4 base 0).map (·.1)

/-- The same loop for any unsigned `Number_T` of `m = 2^bits` values (the library instantiates
`Number_T = SizeT64` from `Digit::StringToNumber` for `0x…` literals, the tests `SizeT64` through the
two-argument overload).  `n = end_offset - offset`.  Returns (number, offset). -/
def hexLoopW (m : Nat) (c : List Nat) : Nat → Nat → Nat → Option (Nat × Nat)
  | 0, off, num => some (num, off)
  | n + 1, off, num =>
    match c[off]? with
    | none => none
    | some d =>
      match hexVal? d with
      | some v => hexLoopW m c n (off + 1) (((num <<< 4) % m) ||| v)
      | none => some (num, off)

/-- Positional value of a digit string (specification side): Σ 16^i·dᵢ on top of `acc`. -/
def hexValue : List Nat → Nat → Nat
  | [], acc => acc
  | d :: ds, acc => hexValue ds (acc * 16 + (hexVal? d).getD 0)


/-! ## UnEscape (JSONUtils.hpp), A-model: cursors and checked reads -/

/-- `stream.Write(content + a, b - a)`: a block read of `[a, b)`.  `b < a` would be a wrapped
`SizeT` length (a read far outside any buffer); a zero-length copy reads nothing. -/
def slice (c : List Nat) (a b : Nat) : Option (List Nat) :=
  if b < a then none
  else if a = b then some []
  else if b ≤ c.length then some ((c.drop a).take (b - a))
  else none

/-- The flush at the closing quote / at the end of input: `if (stream.IsNotEmpty()) stream.Write(…)`. -/
def finish (c : List Nat) (off2 off : Nat) (st : List Nat) (ret : Nat) : Option (List Nat × Nat) :=
  if st.isEmpty then some (st, ret)
  else match slice c off2 off with
    | none => none
    | some s => some (st ++ s, ret)

/-- The `while (offset < length)` loop of `JSONUtils::UnEscape` (lines 86-187) and the tail
(189-193).  `w` = `sizeof(Char_T)`. -/
def unEscapeLoop (w : Nat) (c : List Nat) (len : Nat) : Nat → Nat → Nat → List Nat → Option (List Nat × Nat)
  | 0, _, _, _ => none
  | fuel + 1, off, off2, st =>
    if off < len then
      match c[off]? with
      | none => none
      | some ch =>
        if ch = 34 then                                   -- QuoteChar
          finish c off2 off st (off + 1)
        else if ch = 92 then                              -- BSlashChar
          match slice c off2 off with
          | none => none
          | some s =>
            let st := st ++ s
            let o := off + 1                              -- ++offset; offset2 = offset; ++offset2
            if o ≥ len then some (st, 0)
            else
              match c[o]? with
              | none => none
              | some e =>
                if e = 34 ∨ e = 92 ∨ e = 47 then unEscapeLoop w c len fuel (o + 1) (o + 1) (st ++ [e])
                else if e = 98 then unEscapeLoop w c len fuel (o + 1) (o + 1) (st ++ [8])     -- \b
                else if e = 116 then unEscapeLoop w c len fuel (o + 1) (o + 1) (st ++ [9])    -- \t
                else if e = 110 then unEscapeLoop w c len fuel (o + 1) (o + 1) (st ++ [10])   -- \n
                else if e = 102 then unEscapeLoop w c len fuel (o + 1) (o + 1) (st ++ [12])   -- \f
                else if e = 114 then unEscapeLoop w c len fuel (o + 1) (o + 1) (st ++ [13])   -- \r
                else if e = 85 ∨ e = 117 then                                                 -- \U \u
                  let h := o + 1
                  if len - h > 3 then
                    match hexToNumber c h with
                    | none => none
                    | some code =>
                      let p := h + 4
                      if code &&& 0xFC00 ≠ 0xD800 then
                        unEscapeLoop w c len fuel p p (st ++ toUTF w code)
                      else if len - p > 5 then
                        let hi := ((code ^^^ 0xD800) <<< 10) % 4294967296
                        match hexToNumber c (p + 2) with
                        | none => none
                        | some lo =>
                          let code2 := (((hi + (lo &&& 0x3FF)) % 4294967296) + 0x10000) % 4294967296
                          unEscapeLoop w c len fuel (p + 6) (p + 6) (st ++ toUTF w code2)
                      else some (st, 0)
                  else some (st, 0)
                else some (st, 0)
        else if ch = 10 ∨ ch = 9 ∨ ch = 13 then some (st, 0)   -- raw \n \t \r
        else unEscapeLoop w c len fuel (off + 1) off2 st
    else finish c off2 off st off

/-- `JSONUtils::UnEscape(content, length, stream)` on a stream that currently holds `st`. -/
def unEscapeA (w : Nat) (c : List Nat) (len : Nat) (st : List Nat) : Option (List Nat × Nat) :=
  unEscapeLoop w c len (len + 1) 0 0 st

/-- The call on a whole buffer with an empty stream. -/
def unEscape (c : List Nat) (w : Nat) : Option (List Nat × Nat) :=
  unEscapeA w c c.length []

/-! ## UnEscape, B-model: recursion on the unread suffix -/

/-- Four units → number, as `HexStringToNumber` computes it (stops at the first non-digit). -/
def hexFold : List Nat → Nat → Nat
  | [], num => num
  | d :: ds, num =>
    match hexVal? d with
    | some v => hexFold ds (((num <<< 4) % 4294967296) ||| v)
    | none => num

def finishB (pend st : List Nat) (ret : Nat) : List Nat × Nat :=
  if st.isEmpty then (st, ret) else (st ++ pend, ret)

/-- `s` = `content[offset, length)`, `pend` = `content[offset2, offset)`, `n` = `offset`. -/
def unEscapeB (w : Nat) : List Nat → List Nat → List Nat → Nat → List Nat × Nat
  | [], pend, st, n => finishB pend st n
  | ch :: rest, pend, st, n =>
    if ch = 34 then finishB pend st (n + 1)
    else if ch = 92 then
      match rest with
      | [] => (st ++ pend, 0)
      | e :: rest1 =>
        if e = 34 ∨ e = 92 ∨ e = 47 then unEscapeB w rest1 [] (st ++ pend ++ [e]) (n + 2)
        else if e = 98 then unEscapeB w rest1 [] (st ++ pend ++ [8]) (n + 2)
        else if e = 116 then unEscapeB w rest1 [] (st ++ pend ++ [9]) (n + 2)
        else if e = 110 then unEscapeB w rest1 [] (st ++ pend ++ [10]) (n + 2)
        else if e = 102 then unEscapeB w rest1 [] (st ++ pend ++ [12]) (n + 2)
        else if e = 114 then unEscapeB w rest1 [] (st ++ pend ++ [13]) (n + 2)
        else if e = 85 ∨ e = 117 then
          match rest1 with
          | a :: b :: x :: d :: rest2 =>
            let code := hexFold [a, b, x, d] 0
            if code &&& 0xFC00 ≠ 0xD800 then unEscapeB w rest2 [] (st ++ pend ++ toUTF w code) (n + 6)
            else
              match rest2 with
              | _ :: _ :: a2 :: b2 :: x2 :: d2 :: rest3 =>
                let hi := ((code ^^^ 0xD800) <<< 10) % 4294967296
                let lo := hexFold [a2, b2, x2, d2] 0
                let code2 := (((hi + (lo &&& 0x3FF)) % 4294967296) + 0x10000) % 4294967296
                unEscapeB w rest3 [] (st ++ pend ++ toUTF w code2) (n + 12)
              | _ => (st ++ pend, 0)
          | _ => (st ++ pend, 0)
        else (st ++ pend, 0)
    else if ch = 10 ∨ ch = 9 ∨ ch = 13 then (st, 0)
    else unEscapeB w rest (pend ++ [ch]) st (n + 1)

/-! ## Specification side: decoders written from the Unicode standard -/

/-- Unicode scalar value (D76): a code point outside the surrogate range. -/
def isScalar (cp : Nat) : Prop := cp < 0x110000 ∧ ¬ (0xD800 ≤ cp ∧ cp ≤ 0xDFFF)

instance (cp : Nat) : Decidable (isScalar cp) := by unfold isScalar; infer_instance

def isCont (b : Nat) : Bool := 0x80 ≤ b && b ≤ 0xBF

/-- Strict UTF-8 decoder: exactly the well-formed byte sequences of the Unicode standard,
Table 3-7 (no overlong forms, no surrogates, nothing above U+10FFFF), value from the bit
layout of Table 3-6.  `none` = ill-formed. -/
def utf8Decode : List Nat → Option (List Nat)
  | [] => some []
  | b0 :: rest =>
    if b0 < 0x80 then (utf8Decode rest).map (b0 :: ·)
    else if 0xC2 ≤ b0 ∧ b0 ≤ 0xDF then
      match rest with
      | b1 :: r =>
        if isCont b1 then (utf8Decode r).map (((b0 % 32) * 64 + b1 % 64) :: ·) else none
      | _ => none
    else if 0xE0 ≤ b0 ∧ b0 ≤ 0xEF then
      match rest with
      | b1 :: b2 :: r =>
        if (if b0 = 0xE0 then 0xA0 else 0x80) ≤ b1 ∧ b1 ≤ (if b0 = 0xED then 0x9F else 0xBF) ∧ isCont b2 then
          (utf8Decode r).map (((b0 % 16) * 4096 + (b1 % 64) * 64 + b2 % 64) :: ·)
        else none
      | _ => none
    else if 0xF0 ≤ b0 ∧ b0 ≤ 0xF4 then
      match rest with
      | b1 :: b2 :: b3 :: r =>
        if (if b0 = 0xF0 then 0x90 else 0x80) ≤ b1 ∧ b1 ≤ (if b0 = 0xF4 then 0x8F else 0xBF) ∧ isCont b2 ∧ isCont b3 then
          (utf8Decode r).map (((b0 % 8) * 262144 + (b1 % 64) * 4096 + (b2 % 64) * 64 + b3 % 64) :: ·)
        else none
      | _ => none
    else none

/-- Strict UTF-16 decoder (Unicode standard §3.9 D91, Table 3-5): a unit outside D800..DFFF is
itself; a high surrogate must be followed by a low surrogate. -/
def utf16Decode : List Nat → Option (List Nat)
  | [] => some []
  | u :: rest =>
    if u < 0xD800 ∨ (0xE000 ≤ u ∧ u < 0x10000) then (utf16Decode rest).map (u :: ·)
    else if 0xD800 ≤ u ∧ u ≤ 0xDBFF then
      match rest with
      | l :: r =>
        if 0xDC00 ≤ l ∧ l ≤ 0xDFFF then
          (utf16Decode r).map ((0x10000 + (u - 0xD800) * 0x400 + (l - 0xDC00)) :: ·)
        else none
      | [] => none
    else none

/-- UTF-32 (D90): every unit is a scalar value. -/
def utf32Decode : List Nat → Option (List Nat)
  | [] => some []
  | u :: rest => if isScalar u then (utf32Decode rest).map (u :: ·) else none

def utfDecode (w : Nat) (l : List Nat) : Option (List Nat) :=
  if w = 1 then utf8Decode l else if w = 2 then utf16Decode l else utf32Decode l

/-! ## Writing a `\u` escape (specification of the input side, RFC 8259 §7) -/

/-- Hex digit character of `d < 16`, upper or lower case. -/
def hexChar (upper : Bool) (d : Nat) : Nat :=
  if d < 10 then 48 + d else if upper then 55 + d else 87 + d

/-- The four hex digits of `v < 0x10000`; `up` chooses the case of each digit. -/
def hex4 (up : Bool) (v : Nat) : List Nat :=
  [hexChar up (v / 4096 % 16), hexChar up (v / 256 % 16), hexChar up (v / 16 % 16), hexChar up (v % 16)]

/-- `\uXXXX` (or `\UXXXX`, which the routine also accepts when `bigU`). -/
def uEscape (bigU up : Bool) (v : Nat) : List Nat :=
  92 :: (if bigU then 85 else 117) :: hex4 up v

/-- RFC 8259 §7: a BMP scalar is one escape; a supplementary one is the UTF-16 surrogate pair. -/
def jsonEscape (bigU up : Bool) (cp : Nat) : List Nat :=
  if cp < 0x10000 then uEscape bigU up cp
  else uEscape bigU up (0xD800 + (cp - 0x10000) / 0x400) ++ uEscape bigU up (0xDC00 + (cp - 0x10000) % 0x400)

/-- A unit the un-escaper copies through: not `"`, `\`, and not a raw `\n \t \r`. -/
def isPlain (c : Nat) : Bool := c != 34 && c != 92 && c != 10 && c != 9 && c != 13

/-! ## The token grammar the routine accepts (for whole-string statements)

A string body is a sequence of tokens.  `Tok.ok` is what the *routine* requires of each token
(it never looks at the two units between a high surrogate escape and the next four digits, and
it does not require hex digits to be hex digits); RFC 8259 strings are a subset. -/

/-- Unit emitted for a two-character escape `\e`, `none` when `e` is not one of `" \ / b t n f r`. -/
def simpleOut (e : Nat) : Option Nat :=
  if e = 34 ∨ e = 92 ∨ e = 47 then some e
  else if e = 98 then some 8
  else if e = 116 then some 9
  else if e = 110 then some 10
  else if e = 102 then some 12
  else if e = 114 then some 13
  else none

/-- The code point the routine computes from a high-surrogate value and the second number. -/
def pairCode (hi lo : Nat) : Nat :=
  (((((hi ^^^ 0xD800) <<< 10) % 4294967296 + (lo &&& 0x3FF)) % 4294967296) + 0x10000) % 4294967296

inductive Tok where
  | plain (c : Nat)
  | simple (e : Nat)
  | u (e a b x d : Nat)
  | pair (e a b x d y z a2 b2 x2 d2 : Nat)

def Tok.src : Tok → List Nat
  | .plain c => [c]
  | .simple e => [92, e]
  | .u e a b x d => [92, e, a, b, x, d]
  | .pair e a b x d y z a2 b2 x2 d2 => [92, e, a, b, x, d, y, z, a2, b2, x2, d2]

def Tok.ok : Tok → Bool
  | .plain c => isPlain c
  | .simple e => (simpleOut e).isSome
  | .u e a b x d => (e == 85 || e == 117) && (hexFold [a, b, x, d] 0 &&& 0xFC00 != 0xD800)
  | .pair e a b x d _ _ _ _ _ _ => (e == 85 || e == 117) && (hexFold [a, b, x, d] 0 &&& 0xFC00 == 0xD800)

def Tok.isPlainTok : Tok → Bool
  | .plain _ => true
  | _ => false

/-- What the token contributes to the un-escaped text. -/
def Tok.out (w : Nat) : Tok → List Nat
  | .plain c => [c]
  | .simple e => (simpleOut e).toList
  | .u _ a b x d => toUTF w (hexFold [a, b, x, d] 0)
  | .pair _ a b x d _ _ a2 b2 x2 d2 => toUTF w (pairCode (hexFold [a, b, x, d] 0) (hexFold [a2, b2, x2, d2] 0))

/-- An item of a text to be written as a JSON string body: a plain unit, or a scalar value
written as a `\u` escape / surrogate pair (`bigU`, `up` choose `\U` and the hex case). -/
inductive Item where
  | unit (c : Nat)
  | esc (cp : Nat) (bigU up : Bool)

def Item.src : Item → List Nat
  | .unit c => [c]
  | .esc cp bigU up => jsonEscape bigU up cp

def Item.out (w : Nat) : Item → List Nat
  | .unit c => [c]
  | .esc cp _ _ => toUTF w cp

def Item.ok : Item → Prop
  | .unit c => isPlain c = true
  | .esc cp _ _ => isScalar cp

def Item.isUnit : Item → Bool
  | .unit _ => true
  | _ => false

end Qentem.Unicode
