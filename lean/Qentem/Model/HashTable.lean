import Qentem.Model.Hash
/-
Concrete (layout level) model of `HashTable<Key_T, HItem>` (Include/HashTable.hpp), `HArray`
(Include/HArray.hpp) and `HList` (Include/HList.hpp, the same model with `V := Unit`).

C++ layout: one block; `capacity_` bucket heads (`SizeT`) followed by `capacity_` item slots of which
the first `index_` are constructed.  `HItem = {Key, Hash, Next, (Value)}`; links (`heads[b]`, `Next`)
are 1-based item numbers, 0 = end of chain; `Hash == 0` marks a removed item.

  state          `HT V = {cap, heads : Array Nat, items : Array (Item V)}`;  `Size() = items.size`,
                 `Capacity() = cap`, `heads` = the `SizeT` array before `Storage()`.
  `SizeT *index` (pointer to a bucket head or to an item's `Next`, HashTable.hpp:522-541) becomes the
                 value `Link = head b | next i`; `*index` is `getLink`, `*index = v` is `setLink`.
  checked reads  every read through a link / item number goes through `[i]?`; `none` at the outermost
                 level of a routine means "the C++ would have read or written outside
                 `[heads, heads+cap)` / `[Storage(), Storage()+Size())`" or that the loop fuel ran out.
                 `insertAt` faults when no free slot is left (`Size() == Capacity()`).  Writes through a
                 link go to a place that was read just before, so they use the in-bounds setters.
  loops          `find` (HashTable.hpp:522-541) and the inner loop of `generateHash` (556-558) follow
                 `Next` links without a bound in C++; here they take fuel `Size() + 1`
                 (theorem `find_fuel` / `walkEnd` lemmas: never exhausted under the invariant).
  hash function  a parameter `H`; merges and RemoveIndex use the stored `Hash` as the C++ does.
  key order      a parameter `ord` (rank of a code unit in `Char_T` order), used only by `Sort`.
  capacity       `allocate` (407-424): `n += n & 1; AlignSize(n)` = next power of two.  Capacity
                 arithmetic is in `Nat`: the 32-bit wrap of `size_sum * new_capacity` and of
                 `Capacity()*2` needs a table of >= 2^27 slots and is outside the model (see notes).
  values         moved/copied/disposed C++ objects are plain values; `Value_T{}` is `default`.
  aliasing       operands are values; `h += h` (source = destination) is the separate operation
                 `selfMerge`, which the repaired headers make a no-op (`if (this == &src) return;`).

No proofs in this file.  Line numbers refer to the headers as of this commit.
-/
namespace Qentem.HashTable

structure Item (V : Type) where
  key  : List Nat
  hash : Nat
  next : Nat
  val  : V

structure HT (V : Type) where
  cap   : Nat
  heads : Array Nat
  items : Array (Item V)

/-- What a `SizeT *index` can point to. -/
inductive Link where
  | head (b : Nat)
  | next (i : Nat)
deriving DecidableEq, Repr

variable {V : Type}

/-- A default-constructed table. -/
def HT.empty : HT V := ⟨0, #[], #[]⟩

def HT.size (s : HT V) : Nat := s.items.size

/-- `getBase()`: `Capacity() - 1`.  With capacity 0 the C++ value is 2^32-1 on a null table; any read
faults there, as does `heads[0]?` here. -/
def base (s : HT V) : Nat := s.cap - 1

def getLink (s : HT V) : Link → Option Nat
  | .head b => s.heads[b]?
  | .next i => s.items[i]?.map (·.next)

def setLink (s : HT V) (l : Link) (v : Nat) : HT V :=
  match l with
  | .head b => { s with heads := s.heads.setIfInBounds b v }
  | .next i => { s with items := s.items.modify i (fun it => { it with next := v }) }

def setVal (s : HT V) (i : Nat) (v : V) : HT V :=
  { s with items := s.items.modify i (fun it => { it with val := v }) }

def live (it : Item V) : Bool := it.hash != 0

/-- The `while (*index != 0)` loop of `find` (HashTable.hpp:529-538).  Result: the link the loop
stopped at and the 0-based number of the matching item, if any. -/
def findLoop (s : HT V) (key : List Nat) (hash : Nat) : Nat → Link → Option (Link × Option Nat)
  | 0, _ => none
  | fuel + 1, l =>
    match getLink s l with
    | none => none
    | some 0 => some (l, none)
    | some (v + 1) =>
      match s.items[v]? with
      | none => none
      | some it =>
        if it.hash = hash ∧ it.key = key then some (l, some v)
        else findLoop s key hash fuel (.next v)

/-- `find(index, key, length, hash)`. -/
def find (s : HT V) (key : List Nat) (hash : Nat) : Option (Link × Option Nat) :=
  findLoop s key hash (s.size + 1) (.head (hash &&& base s))

/-- `Memory::AlignSize` (Memory.hpp:150-158) for `n ≥ 1`. -/
def alignSize (n : Nat) : Nat :=
  let s := 2 ^ Nat.log2 n
  if s < n then 2 * s else s

/-- The capacity `allocate(n)` chooses: `n += (n & 1)`, then `AlignSize`. -/
def allocCap (n : Nat) : Nat := alignSize (n + n % 2)

/-- `allocate(n)` followed by placing `items` into the fresh storage: heads zeroed. -/
def allocate (n : Nat) (items : Array (Item V)) : HT V :=
  ⟨allocCap n, Array.replicate (allocCap n) 0, items⟩

/-- Inner loop of `generateHash` (HashTable.hpp:556-558): advance to the link that holds 0. -/
def walkEnd (s : HT V) : Nat → Link → Option Link
  | 0, _ => none
  | fuel + 1, l =>
    match getLink s l with
    | none => none
    | some 0 => some l
    | some (v + 1) => walkEnd s fuel (.next v)

/-- Outer loop of `generateHash` (552-563): `n` items left, `i` = number of the current one. -/
def genLoop (s : HT V) : Nat → Nat → Option (HT V)
  | 0, _ => some s
  | n + 1, i =>
    match s.items[i]? with
    | none => none
    | some it =>
      let s1 : HT V := { s with items := s.items.setIfInBounds i { it with next := 0 } }
      match walkEnd s1 (s1.size + 1) (.head (it.hash &&& base s1)) with
      | none => none
      | some l => genLoop (setLink s1 l (i + 1)) n (i + 1)

def generateHash (s : HT V) : Option (HT V) := genLoop s s.size 0

/-- New block of `allocCap n` slots holding `keep`, then `generateHash` (shared tail of `resize` and
`copyTable`).  Faults if the items do not fit the new storage. -/
def rebuild (n : Nat) (keep : Array (Item V)) : Option (HT V) :=
  if keep.size ≤ allocCap n then generateHash (allocate n keep) else none

/-- `resize(new_size)` (500-520): live items move to a new block in order, tombstones are dropped. -/
def resize (s : HT V) (n : Nat) : Option (HT V) := rebuild n (s.items.filter live)

/-- `expand()` (446-448). -/
def expand (s : HT V) : Option (HT V) := resize s (((if s.cap = 0 then 1 else 0) + s.cap) * 2)

/-- `if (Size() == Capacity()) expand();` -/
def growIfFull (s : HT V) : Option (HT V) := if s.size = s.cap then expand s else some s

/-- `insert(index, key, hash)` (450-461) plus the value initialisation done by the callers. -/
def insertAt (s : HT V) (l : Link) (key : List Nat) (hash : Nat) (v : V) : Option (HT V) :=
  if s.size < s.cap then
    let s1 := setLink s l (s.size + 1)
    some { s1 with items := s1.items.push ⟨key, hash, 0, v⟩ }
  else none

/-- `HArray::Insert(key, value)` (HArray.hpp:199-214); `HList::Insert` with `V = Unit`. -/
def insert (H : List Nat → Nat) (s : HT V) (key : List Nat) (v : V) : Option (HT V) :=
  match growIfFull s with
  | none => none
  | some s =>
    match find s key (H key) with
    | none => none
    | some (_, some i) => some (setVal s i v)
    | some (l, none) => insertAt s l key (H key) v

/-- `HArray::Get` / `operator[]` (HArray.hpp:155-197): the item number of the (possibly new) entry. -/
def getOrCreate [Inhabited V] (H : List Nat → Nat) (s : HT V) (key : List Nat) : Option (HT V × Nat) :=
  match growIfFull s with
  | none => none
  | some s =>
    match find s key (H key) with
    | none => none
    | some (_, some i) => some (s, i)
    | some (l, none) =>
      match insertAt s l key (H key) default with
      | none => none
      | some s' => some (s', s.size)

/-- `h[key] = v`. -/
def assign [Inhabited V] (H : List Nat → Nat) (s : HT V) (key : List Nat) (v : V) : Option (HT V) :=
  match getOrCreate H s key with
  | none => none
  | some (s', i) => some (setVal s' i v)

/-- `GetValue(key)` / `GetKeyIndex` / `Has` / `GetItem(key)`: item number and value when present.
The outer `Option` is the fault channel. -/
def lookup (H : List Nat → Nat) (s : HT V) (key : List Nat) : Option (Option (Nat × V)) :=
  if s.size = 0 then some none else
  match find s key (H key) with
  | none => none
  | some (_, none) => some none
  | some (_, some i) =>
    match s.items[i]? with
    | none => none
    | some it => some (some (i, it.val))

/-- `GetKey(index)` / `GetValue(index)` / `GetItem(index)`. -/
def lookupIdx (s : HT V) (i : Nat) : Option (List Nat × V) :=
  match s.items[i]? with
  | none => none
  | some it => if it.hash ≠ 0 then some (it.key, it.val) else none

/-- `remove(key, length, hash)` (463-476). -/
def removeH [Inhabited V] (s : HT V) (key : List Nat) (hash : Nat) : Option (HT V) :=
  if s.size = 0 then some s else
  match find s key hash with
  | none => none
  | some (_, none) => some s
  | some (l, some i) =>
    match s.items[i]? with
    | none => none
    | some it =>
      let s1 := setLink s l it.next
      some { s1 with items := s1.items.modify i (fun _ => ⟨[], 0, 0, default⟩) }

/-- `Remove(key)`. -/
def remove [Inhabited V] (H : List Nat → Nat) (s : HT V) (key : List Nat) : Option (HT V) :=
  removeH s key (H key)

/-- `RemoveIndex(index)` (193-201): uses the stored key and hash. -/
def removeIdx [Inhabited V] (s : HT V) (i : Nat) : Option (HT V) :=
  match s.items[i]? with
  | none => some s
  | some it => if it.hash ≠ 0 then removeH s it.key it.hash else some s

/-- `Rename(from, to)` (207-236).  The three stores are done in program order on the updated state,
so aliasing between `*right_index` and `item->Next` behaves as in the C++. -/
def rename (H : List Nat → Nat) (s : HT V) (frm to : List Nat) : Option (HT V × Bool) :=
  if s.size = 0 then some (s, false) else
  match find s frm (H frm) with
  | none => none
  | some (li, _) =>
    match getLink s li with
    | none => none
    | some 0 => some (s, false)
    | some (idx + 1) =>
      match find s to (H to) with
      | none => none
      | some (ri, _) =>
        match getLink s ri with
        | none => none
        | some (_ + 1) => some (s, false)
        | some 0 =>
          let s1 := setLink s ri (idx + 1)                       -- *right_index = *left_index
          match s1.items[idx]? with
          | none => none
          | some it =>
            let s2 := setLink s1 li it.next                      -- *left_index = item->Next
            let items := s2.items.modify idx (fun it => { it with next := 0, hash := H to, key := to })
            some ({ s2 with items := items }, true)

/-- `Clear()` (250-259). -/
def clear (s : HT V) : HT V :=
  if s.size ≠ 0 then { s with heads := Array.replicate s.cap 0, items := #[] } else s

/-- `Reset()` (261-272). -/
def reset (s : HT V) : HT V := if s.cap ≠ 0 then HT.empty else s

/-- `Reserve(size)` (242-248). -/
def reserve (s : HT V) (n : Nat) : HT V :=
  let s := reset s
  if n ≠ 0 then allocate n s.items else s

/-- `Resize(new_size)` (274-289). -/
def resizeTo (s : HT V) (n : Nat) : Option (HT V) :=
  if n = 0 then some (reset s) else
  let s := if s.size > n then { s with items := s.items.extract 0 n } else s
  resize s n

/-- `Expect(count)` (291-297). -/
def expect (s : HT V) (count : Nat) : Option (HT V) :=
  let n := count + s.size
  if n > s.cap then resize s n else some s

/-- `ActualSize()` (329-343). -/
def actualSize (s : HT V) : Nat := s.items.countP live

/-- `Compress()` (314-326). -/
def compress (s : HT V) : Option (HT V) :=
  let a := actualSize s
  if a ≠ 0 then (if a < s.size then resize s a else some s) else some (reset s)

/-- `copyTable(src)` into an empty table (478-498): copy constructor / copy assignment. -/
def copy (src : HT V) : Option (HT V) :=
  if src.size ≠ 0 then rebuild src.size (src.items.filter live) else some HT.empty

/-- Move constructor / move assignment: (destination, source afterwards). -/
def moveFrom (src : HT V) : HT V × HT V := (src, HT.empty)

/-! ### `Memory::Sort` (Memory.hpp:116-147) as coded: first element is the pivot. -/

/-- The `while (offset < end)` loop; `fuel = end - offset`. -/
def sortPart {α : Type} (cmp : α → α → Bool) (start : Nat) : Nat → Array α → Nat → Nat → Array α × Nat
  | 0, arr, index, _ => (arr, index)
  | fuel + 1, arr, index, offset =>
    match arr[offset]?, arr[start]? with
    | some x, some p =>
      if cmp x p then sortPart cmp start fuel (arr.swapIfInBounds (index + 1) offset) (index + 1) (offset + 1)
      else sortPart cmp start fuel arr index (offset + 1)
    | _, _ => (arr, index)

/-- `Sort<Ascend_T>(arr, start, end)`; `cmp x pivot` is `x < pivot` (ascending) or `x > pivot`.
The recursion depth is at most `end - start`; `fuel` bounds it. -/
def sortSeg {α : Type} (cmp : α → α → Bool) : Nat → Array α → Nat → Nat → Array α
  | 0, arr, _, _ => arr
  | fuel + 1, arr, start, end_ =>
    if start ≠ end_ then
      let (arr, index) := sortPart cmp start (end_ - (start + 1)) arr start (start + 1)
      let arr := if index ≠ start then arr.swapIfInBounds index start else arr
      let arr := sortSeg cmp fuel arr start index
      sortSeg cmp fuel arr (index + 1) end_
    else arr

/-- `HAItem_T::operator<` / `operator>` on the keys. -/
def itemCmp (ord : Nat → Nat) (ascend : Bool) (x p : Item V) : Bool :=
  if ascend then Hash.isLess ord x.key p.key false else Hash.isGreater ord x.key p.key false

/-- `Sort(ascend)` (300-311): sort the items (whole records are swapped), zero the heads, rehash. -/
def sort (ord : Nat → Nat) (s : HT V) (ascend : Bool) : Option (HT V) :=
  generateHash { s with heads := Array.replicate s.cap 0,
                        items := sortSeg (itemCmp ord ascend) (s.size + 1) s.items 0 s.size }

/-! ### `operator+=` (HArray.hpp:98-153, HList.hpp:83-135) -/

/-- The `while (src_item < src_end)` loop of both merges.  For the destination the copying and the
moving variant have the same effect: an absent key is appended with the source's value, a present
key gets the source's value. -/
def mergeItems : List (Item V) → HT V → Option (HT V)
  | [], s => some s
  | it :: rest, s =>
    if it.hash ≠ 0 then
      match find s it.key it.hash with
      | none => none
      | some (_, some i) => mergeItems rest (setVal s i it.val)
      | some (l, none) =>
        match insertAt s l it.key it.hash it.val with
        | none => none
        | some s' => mergeItems rest s'
    else mergeItems rest s

/-- `dst += src` (distinct objects). -/
def merge (s src : HT V) : Option (HT V) :=
  let n := s.size + src.size
  match (if n > s.cap then resize s n else some s) with
  | none => none
  | some s => mergeItems src.items.toList s

/-! ### Operations as data -/

inductive Op (V : Type) where
  | insert (k : List Nat) (v : V)
  | get (k : List Nat)
  | assign (k : List Nat) (v : V)
  | lookup (k : List Nat)
  | lookupIdx (i : Nat)
  | remove (k : List Nat)
  | removeIdx (i : Nat)
  | rename (a b : List Nat)
  | reserve (n : Nat)
  | resize (n : Nat)
  | expect (n : Nat)
  | compress
  | clear
  | reset
  | sort (ascend : Bool)
  | copy
  | move
  /-- `dst += src` where `src` is a fresh table built by `Insert`s then `Remove`s. -/
  | merge (ins : List (List Nat × V)) (rem : List (List Nat))
  /-- `h += h` (HArray.hpp / HList.hpp `if (this == &src) return;`): nothing happens. -/
  | selfMerge

inductive Out (V : Type) where
  | unit
  | value (v : V)
  | found (r : Option (Nat × V))
  | entry (r : Option (List Nat × V))
  | flag (b : Bool)

/-- The merge operand: inserts, then removals, starting from an empty table. -/
def buildOperand [Inhabited V] (H : List Nat → Nat) (ins : List (List Nat × V)) (rem : List (List Nat)) :
    Option (HT V) :=
  match ins.foldlM (fun s kv => insert H s kv.1 kv.2) (HT.empty : HT V) with
  | none => none
  | some s => rem.foldlM (fun s k => remove H s k) s

/-- One public operation.  `none` = fault. -/
def step [Inhabited V] (H : List Nat → Nat) (ord : Nat → Nat) (s : HT V) : Op V → Option (HT V × Out V)
  | .insert k v => (insert H s k v).map (·, .unit)
  | .get k =>
    match getOrCreate H s k with
    | none => none
    | some (s', i) =>
      match s'.items[i]? with
      | none => none
      | some it => some (s', .value it.val)
  | .assign k v => (assign H s k v).map (·, .unit)
  | .lookup k => (lookup H s k).map fun r => (s, .found r)
  | .lookupIdx i => some (s, .entry (lookupIdx s i))
  | .remove k => (remove H s k).map (·, .unit)
  | .removeIdx i => (removeIdx s i).map (·, .unit)
  | .rename a b => (rename H s a b).map fun r => (r.1, .flag r.2)
  | .reserve n => some (reserve s n, .unit)
  | .resize n => (resizeTo s n).map (·, .unit)
  | .expect n => (expect s n).map (·, .unit)
  | .compress => (compress s).map (·, .unit)
  | .clear => some (clear s, .unit)
  | .reset => some (reset s, .unit)
  | .sort a => (sort ord s a).map (·, .unit)
  | .copy => (copy s).map (·, .unit)
  | .move => some ((moveFrom s).1, .unit)
  | .merge ins rem =>
    match buildOperand H ins rem with
    | none => none
    | some src => (merge s src).map (·, .unit)
  | .selfMerge => some (s, .unit)

/-- Run a whole operation sequence from a given state, collecting outputs. -/
def run [Inhabited V] (H : List Nat → Nat) (ord : Nat → Nat) : HT V → List (Op V) → Option (HT V × List (Out V))
  | s, [] => some (s, [])
  | s, op :: ops =>
    match step H ord s op with
    | none => none
    | some (s', o) =>
      match run H ord s' ops with
      | none => none
      | some (s'', os) => some (s'', o :: os)

end Qentem.HashTable
