import Qentem.Generated.Tmpl
import Qentem.Model.Expr
/-!
# Template model — `Finder<Tags::List<Char_T>, Char_T, SizeT>::Next` (`Finder.hpp:45-113`)

State of the C++ object: `content_`, `length_` (fixed), `offset_`, `match_`.  The model is the
function `next c off = (offset_', match_)` on `c : List Nat` (`length_ = c.length`), with every
`content_[i]` a checked read `rd` (fails out of range) — `finder_safe_total` (Proofs) shows it
never fails.  The word table (`words`, `wordLengths`, `groups`, `firstChars`, `singleChar`) is
`Qentem.Generated.Tmpl.W1` (T1; `Props/C01.lean` proves the four widths agree).  `SizeT` is 32
bits: `Number_T(offset_ + word_length)` is written `% 2^sizeTBits`.
-/
namespace Qentem.Tmpl
open Qentem.Expr (Fault rd)
open Qentem.Generated.Tmpl



/-- `WordsList_T::GetFirstCharID` -/
def firstCharID (ch : Nat) : Nat :=
  if ch = W1.inLineFirstChar then 0 else if ch = W1.multiLineFirstChar then 1 else 2

/-- the inner `while` comparing the units between the first and the last unit of the word;
returns the offset where it stops -/
def matchMiddle (c : List Nat) (wend : Nat) : List Nat → Nat → Except Fault Nat
  | [], off => .ok off
  | w :: ws, off =>
    if off < wend then do
      let ch ← rd c off
      if ch = w then matchMiddle c wend ws (off + 1) else .ok off
    else .ok off

/-- the `do … while (++id < group_count)` over the words of one group; `start` = offset after
the first character.  Result: `some (offset', match)` on a hit. -/
def tryWords (c : List Nat) (start : Nat) : List Nat → Except Fault (Option (Nat × Nat))
  | [] => .ok none
  | wid :: rest => do
    let wlen := W1.wordLengths.getD wid 0
    let word := W1.words.getD wid []
    let wend := (start + wlen) % 2 ^ sizeTBits
    if wend < c.length then do
      let last ← rd c wend
      if last = word.getD wlen 0 then do
        let off ← matchMiddle c wend (word.take wlen) start
        if off = wend then .ok (some (off + 1, wid + 1)) else tryWords c start rest
      else tryWords c start rest
    else tryWords c start rest

/-- `Next()`: fuel = number of outer iterations (≤ remaining length + 1). -/
def nextF (c : List Nat) : Nat → Nat → Except Fault (Nat × Nat)
  | 0, off => .ok (off, 0)
  | f + 1, off =>
    if off < c.length then do
      let ch ← rd c off
      let id := firstCharID ch
      if id < W1.firstCharsCount then do
        match ← tryWords c (off + 1) (W1.groups.getD id []) with
        | some r => .ok r
        | none => nextF c f (off + 1)
      else if ch = W1.singleChar then .ok (off + 1, 1)
      else nextF c f (off + 1)
    else .ok (off, 0)

/-- `finder.Next()` from `offset_ = off`: new `offset_` and `match_` (0 = end of content). -/
def next (c : List Nat) (off : Nat) : Except Fault (Nat × Nat) := nextF c (c.length + 1 - off) off

end Qentem.Tmpl
