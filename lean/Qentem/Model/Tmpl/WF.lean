import Qentem.Model.Tmpl.Render
/-!
# Template model — well-formed tag trees (`WF`)

`wfTags n lv lo hi tags` (decidable): the tag list can be rendered between content offsets `lo` and
`hi` of a content of `n` units without any out-of-range access (`Proofs/TmplRenderSafe.lean`):

* siblings are ordered and disjoint, every tag lies inside `[lo, hi]`, `hi ≤ n`;
* a variable reference has room for its prefix (`off ≥ 5`) and its name (`off + len ≤ n`; the
  read of the unit after a `]` is guarded since 487b090);
* a variable bound to a loop (`idLen ≠ 0`) refers to a level below `lv` — `lv` is a lower bound of
  the length of `loops_items_` at that point (`renderLoop` grows it to `Level + 1`);
* inline-if: sub-tag start ids are within the sub-tag list, and the tags of the `true` / `false`
  part are well-formed inside that attribute's text;
* loop: content range inside the tag, set / group texts inside the content;
* if: every case's range is inside the content and its tags are well-formed in it.
Sub-tags of a super variable are rendered one at a time from their own start, so they only have to
be individually well-formed.
-/
namespace Qentem.Tmpl
open Qentem.Expr (Item VarRef Operand)
open Qentem.Generated.Tmpl

variable {R : Type}

/-- a variable reference that `getValue` can resolve without leaving the content -/
def wfVar (n lv : Nat) (v : VarRef) : Bool :=
  decide (v.off + v.len ≤ n) && (v.idLen == 0 || decide (v.level < lv))

mutual
def wfOperand (n lv : Nat) : Operand R → Bool
  | .var v => wfVar n lv v
  | .sub items => wfItemVars n lv items
  | _ => true
def wfItemVars (n lv : Nat) : List (Item R) → Bool
  | [] => true
  | (x, _) :: rest => wfOperand n lv x && wfItemVars n lv rest
end

mutual
/-- one tag: `some (start, end)` = the content range it replaces when well-formed -/
def wfTag (n lv : Nat) : Tag R → Option (Nat × Nat)
  | .var v =>
    if wfVar n lv v && decide (W1.variablePrefixLength ≤ v.off ∧ v.off + v.len + W1.inLineSuffixLength ≤ n) then
      some (v.off - W1.variablePrefixLength, v.off + v.len + W1.inLineSuffixLength) else none
  | .raw v =>
    if wfVar n lv v && decide (W1.rawVariablePrefixLength ≤ v.off ∧ v.off + v.len + W1.inLineSuffixLength ≤ n) then
      some (v.off - W1.rawVariablePrefixLength, v.off + v.len + W1.inLineSuffixLength) else none
  | .math ex off endOff =>
    if wfItemVars n lv ex && decide (off ≤ endOff ∧ endOff ≤ n) then some (off, endOff) else none
  | .svar sub v off endOff =>
    if wfVar n lv v && v.idLen == 0 && decide (off ≤ endOff ∧ endOff ≤ n) && wfEach n lv sub then
      some (off, endOff) else none
  | .iif cs sub f =>
    let tStart := f.off + f.trueOff
    let fStart := f.off + f.falseOff
    let okTrue :=
      if f.trueOff < f.falseOff then
        decide (f.falseStart ≤ sub.length) && wfSel n lv tStart (tStart + f.trueLen) 0 f.falseStart sub
      else
        decide (f.trueStart ≤ sub.length) && wfSel n lv tStart (tStart + f.trueLen) f.trueStart sub.length sub
    let okFalse :=
      if f.falseOff < f.trueOff then
        decide (f.trueStart ≤ sub.length) && wfSel n lv fStart (fStart + f.falseLen) 0 f.trueStart sub
      else
        decide (f.falseStart ≤ sub.length) && wfSel n lv fStart (fStart + f.falseLen) f.falseStart sub.length sub
    if wfItemVars n lv cs && decide (f.off + f.len ≤ n) && okTrue && okFalse then
      some (f.off, f.off + f.len) else none
  | .loop sub f =>
    if (f.set.len == 0 || wfVar n lv f.set) &&
       decide (f.off + f.groupOff + f.groupLen ≤ n) &&
       decide (f.off ≤ f.endOff ∧ f.endOff + W1.loopSuffixLength ≤ n) &&
       wfTags n (max lv (f.level + 1)) (f.off + f.contentOff) f.endOff sub then
      some (f.off, f.endOff + W1.loopSuffixLength) else none
  | .ifT cases off endOff =>
    if decide (off ≤ endOff ∧ endOff ≤ n) && wfCases n lv cases then some (off, endOff) else none

/-- ordered, disjoint siblings inside `[lo, hi]` -/
def wfTags (n lv lo hi : Nat) : List (Tag R) → Bool
  | [] => decide (lo ≤ hi ∧ hi ≤ n)
  | t :: rest =>
    match wfTag n lv t with
    | some (s, e) => decide (lo ≤ s) && wfTags n lv e hi rest
    | none => false

/-- `wfTags` of `(tags.drop skip).take cnt` (the sub-range an inline-if renders), structurally -/
def wfSel (n lv lo hi : Nat) : Nat → Nat → List (Tag R) → Bool
  | _, _, [] => decide (lo ≤ hi ∧ hi ≤ n)
  | skip + 1, cnt, _ :: rest => wfSel n lv lo hi skip cnt rest
  | 0, 0, _ :: _ => decide (lo ≤ hi ∧ hi ≤ n)
  | 0, cnt + 1, t :: rest =>
    match wfTag n lv t with
    | some (s, e) => decide (lo ≤ s) && wfSel n lv e hi 0 cnt rest
    | none => false

/-- sub-tags of a super variable: each one on its own -/
def wfEach (n lv : Nat) : List (Tag R) → Bool
  | [] => true
  | t :: rest =>
    (match t with
     | .var _ => (wfTag n lv t).isSome
     | .raw _ => (wfTag n lv t).isSome
     | .math _ _ _ => (wfTag n lv t).isSome
     | _ => true) && wfEach n lv rest

def wfCases (n lv : Nat) : List (IfCase R) → Bool
  | [] => true
  | .mk cs sub off endOff :: rest =>
    wfItemVars n lv cs && wfTags n lv off endOff sub && wfCases n lv rest
end

/-- the whole tree against a content of `n` units -/
def wf (n : Nat) (tags : List (Tag R)) : Bool := wfTags n 0 0 n tags

end Qentem.Tmpl
