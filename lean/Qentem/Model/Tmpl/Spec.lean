import Qentem.Model.Tmpl.Render
import Qentem.Model.ExprSpec
/-!
# C02 — reference interpreter of `Documentation/Template.md`

Written from the document, not from the code: a template is a tree (`Tpl`), `printTpl` is its
text, `expand` is what the document says the text renders to for a value (`Doc`):

* text is copied;
* `{var:path}` prints the value found by `path` (`name[k1][k2]…`, a name bound by an enclosing
  `<loop value="name">` refers to the current item, innermost first): strings HTML-escaped, numbers
  formatted, `true`/`false`/`null` as words; anything else (missing, array, object) leaves the tag
  as written — except that a loop variable that is not printable prints the item's key (Loop
  example 9 of the document);
* `{raw:path}` the same without escaping (and without the key rule);
* `{math:e}` prints the number `e` evaluates to (C04: `evalTop ∘ climb` of the scanned expression),
  otherwise the tag as written;
* `{svar:path, t0, …, t9}`: the string at `path` with every `{i}` replaced by the expansion of
  `ti`, the rest escaped; otherwise the tag as written;
* `{if case="e" true="…" false="…"}`: the `true` text when `e > 0`, the `false` text otherwise,
  nothing when `e` has no value;
* `<if case>…<elseif case />…<else />…</if>`: the body of the first branch whose case is `> 0`
  (`else`: always);
* `<loop set="path" value="name">body</loop>`: `body` once per defined member of the array or
  object at `path` (the whole value when `set` is absent), in order.
Not covered: `sort=` / `group=` (C15, C18), real-number formatting (parameter `fmtReal`, C10).
-/
namespace Qentem.Tmpl
open Qentem.Expr (Item VarRef Env VarVal Num Val RealLike ScanCfg)

/-- expression / path / name texts are kept as code units -/
inductive Tpl where
  | text (s : List Nat)
  | var (path : List Nat)
  | raw (path : List Nat)
  | math (e : List Nat)
  | svar (path : List Nat) (args : List Tpl)
  | iif (case : List Nat) (t f : Option (List Tpl))
  | ifc (branches : List (Option (List Nat) × List Tpl))
  | loop (set : List Nat) (value : List Nat) (body : List Tpl)

def str (s : String) : List Nat := s.toList.map Char.toNat

mutual
def printTpl : Tpl → List Nat
  | .text s => s
  | .var p => str "{var:" ++ p ++ str "}"
  | .raw p => str "{raw:" ++ p ++ str "}"
  | .math e => str "{math:" ++ e ++ str "}"
  | .svar p args => str "{svar:" ++ p ++ printArgs args ++ str "}"
  | .iif c t f =>
    str "{if case=\"" ++ c ++ str "\"" ++
      (match t with | some ts => str " true=\"" ++ printList ts ++ str "\"" | none => []) ++
      (match f with | some fs => str " false=\"" ++ printList fs ++ str "\"" | none => []) ++ str "}"
  | .ifc bs => printBranches true bs ++ str "</if>"
  | .loop set value body =>
    str "<loop" ++ (if set.isEmpty then [] else str " set=\"" ++ set ++ str "\"") ++
      str " value=\"" ++ value ++ str "\">" ++ printList body ++ str "</loop>"
def printList : List Tpl → List Nat
  | [] => []
  | t :: rest => printTpl t ++ printList rest
def printArgs : List Tpl → List Nat
  | [] => []
  | t :: rest => str ", " ++ printTpl t ++ printArgs rest
def printBranches (first : Bool) : List (Option (List Nat) × List Tpl) → List Nat
  | [] => []
  | (c, body) :: rest =>
    (match c with
     | some cs => (if first then str "<if case=\"" ++ cs ++ str "\">" else str "<elseif case=\"" ++ cs ++ str "\" />")
     | none => str "<else />") ++ printList body ++ printBranches false rest
end

/-- one enclosing loop: its variable name, the current item and its key -/
structure Binding where
  name : List Nat
  item : Doc
  key : List Nat

/-- `name[k1][k2]…` → name and keys -/
def splitPath (p : List Nat) : List Nat × List (List Nat) :=
  let name := p.takeWhile (· != 91)
  let rest := p.dropWhile (· != 91)
  let rec keys (fuel : Nat) (r : List Nat) (acc : List (List Nat)) : List (List Nat) :=
    match fuel, r with
    | 0, _ => acc.reverse
    | _, [] => acc.reverse
    | f + 1, 91 :: r' =>
      let k := r'.takeWhile (· != 93)
      let r'' := (r'.dropWhile (· != 93)).drop 1
      keys f r'' (k :: acc)
    | _, _ => acc.reverse
  (name, keys p.length rest [])

def follow : Option Doc → List (List Nat) → Option Doc
  | d, [] => d
  | none, _ => none
  | some d, k :: ks => follow (d.getKey k) ks

/-- the value a path denotes and, if it goes through a loop variable, that binding -/
def resolve (root : Doc) (scope : List Binding) (p : List Nat) : Option Doc × Option Binding :=
  let (name, keys) := splitPath p
  match scope.find? (fun b => b.name == name) with
  | some b => (follow (some b.item) keys, some b)
  | none => (follow (root.getKey name) keys, none)

structure SpecCtx (R : Type) where
  root : Doc
  readNum : List Nat → Option (Num R)
  realOfBits : Nat → R
  realBits : R → Nat
  fmtReal : Nat → List Nat
  autoEscape : Bool := Qentem.Generated.Tmpl.autoEscapeHTML

section
variable {R : Type} [RealLike R]

def escapeS (sx : SpecCtx R) (s : List Nat) : List Nat := Qentem.Escape.escapeCfg sx.autoEscape s

def printable (sx : SpecCtx R) (esc : Bool) : Doc → Option (List Nat)
  | .str s => some (if esc then escapeS sx s else s)
  | .nat n => some (decimal n)
  | .int b => some (signedDecimal b)
  | .real b => some (sx.fmtReal b)
  | .tru => some (str "true") | .fals => some (str "false") | .null => some (str "null")
  | _ => none

def docVarVal (sx : SpecCtx R) : Doc → VarVal R
  | .nat n => .nat n | .int b => .int b | .real b => .real (sx.realOfBits b)
  | .tru => .tru | .fals => .fals | .null => .null | .str s => .str s
  | _ => .other

/-- value of an expression text (C04 reference semantics: scan, build the tree, evaluate).  The text is
scanned as it stands in its tag: followed by `term`, the tag's `}` or the attribute's closing quote
(the printer always writes `"`). -/
def evalText (sx : SpecCtx R) (scope : List Binding) (e : List Nat) (term : Nat := 125) : Option (Val R) :=
  let content := e ++ [term]
  match Qentem.Expr.parseTop ({ readNum := sx.readNum } : ScanCfg R) content 0 e.length with
  | .ok [] => none
  | .ok items =>
    let env : Env R := {
      content := content
      lookup := fun v => ((resolve sx.root scope ((content.drop v.off).take v.len)).1).map (docVarVal sx)
      readNum := sx.readNum }
    Qentem.Expr.evalTop env (Qentem.Expr.climb items)
  | .error _ => none

def numText (sx : SpecCtx R) : Val R → Option (List Nat)
  | .num (.nat b) => some (decimal b)
  | .num (.int b) => some (signedDecimal b)
  | .num (.real r) => some (sx.fmtReal (sx.realBits r))
  | _ => none

def isTrue (v : Option (Val R)) : Option Bool :=
  match v with
  | some (.num n) => some n.positive
  | some _ => some false
  | none => none

mutual
def expandTpl (sx : SpecCtx R) : Nat → List Binding → Tpl → List Nat
  | 0, _, _ => []
  | _ + 1, _, .text s => s
  | _ + 1, scope, .var p =>
    let (d, b) := resolve sx.root scope p
    match d.bind (printable sx true) with
    | some txt => txt
    | none =>
      match b with
      | some bd => if bd.key.isEmpty then escapeS sx (printTpl (.var p)) else escapeS sx bd.key
      | none => escapeS sx (printTpl (.var p))
  | _ + 1, scope, .raw p =>
    match (resolve sx.root scope p).1.bind (printable sx false) with
    | some txt => txt
    | none => printTpl (.raw p)
  | _ + 1, scope, .math e =>
    match (evalText sx scope e).bind (numText sx) with
    | some txt => txt
    | none => printTpl (.math e)
  | fuel + 1, scope, .svar p args =>
    match (resolve sx.root scope p).1 with
    | some (.str phrase) => phraseLoop sx fuel scope args phrase [] (phrase.length + 1)
    | some .tru => escapeS sx (str "true")
    | some .fals => escapeS sx (str "false")
    | some .null => escapeS sx (str "null")
    | _ => printTpl (.svar p args)
  | fuel + 1, scope, .iif c t f =>
    match isTrue (evalText sx scope c 34) with
    | none => []
    | some true => (match t with | some ts => expandList sx fuel scope ts | none => [])
    | some false => (match f with | some fs => expandList sx fuel scope fs | none => [])
  | fuel + 1, scope, .ifc bs => expandBranches sx fuel scope bs
  | fuel + 1, scope, .loop set value body =>
    let coll := if set.isEmpty then some sx.root else (resolve sx.root scope set).1
    match coll with
    | some (.arr xs) => loopArr sx fuel scope value body xs
    | some (.obj ms) => loopObj sx fuel scope value body ms
    | _ => []

def expandList (sx : SpecCtx R) : Nat → List Binding → List Tpl → List Nat
  | 0, _, _ => []
  | _ + 1, _, [] => []
  | fuel + 1, scope, t :: rest => expandTpl sx fuel scope t ++ expandList sx fuel scope rest

def expandBranches (sx : SpecCtx R) : Nat → List Binding → List (Option (List Nat) × List Tpl) → List Nat
  | 0, _, _ => []
  | _ + 1, _, [] => []
  | fuel + 1, scope, (c, body) :: rest =>
    let hit := match c with
      | none => true
      | some cs => isTrue (evalText sx scope cs 34) == some true
    if hit then expandList sx fuel scope body else expandBranches sx fuel scope rest

def loopArr (sx : SpecCtx R) : Nat → List Binding → List Nat → List Tpl → List Doc → List Nat
  | 0, _, _, _, _ => []
  | _ + 1, _, _, _, [] => []
  | fuel + 1, scope, value, body, x :: xs =>
    (if x.isUndefined then [] else
      -- an array item has no key of its own; the key of an enclosing binding of the same
      -- level is not visible in the document's description
      expandList sx fuel (⟨value, x, []⟩ :: scope) body) ++ loopArr sx fuel scope value body xs

def loopObj (sx : SpecCtx R) : Nat → List Binding → List Nat → List Tpl → List (List Nat × Doc) → List Nat
  | 0, _, _, _, _ => []
  | _ + 1, _, _, _, [] => []
  | fuel + 1, scope, value, body, (k, x) :: ms =>
    (if x.isUndefined then [] else expandList sx fuel (⟨value, x, k⟩ :: scope) body) ++
      loopObj sx fuel scope value body ms

/-- `{i}` replacement in a phrase; `pending` = literal text not yet emitted (escaped when flushed) -/
def phraseLoop (sx : SpecCtx R) : Nat → List Binding → List Tpl → List Nat → List Nat → Nat → List Nat
  | 0, _, _, _, _, _ => []
  | _, _, _, _, pending, 0 => escapeS sx pending
  | fuel + 1, scope, args, txt, pending, n + 1 =>
    match txt with
    | [] => escapeS sx pending
    | 123 :: d :: 125 :: rest =>
      if 48 ≤ d ∧ d ≤ 57 ∧ d - 48 < args.length then
        escapeS sx pending ++ (match args[d - 48]? with
          | some a => expandTpl sx fuel scope a
          | none => []) ++ phraseLoop sx fuel scope args rest [] n
      else phraseLoop sx fuel scope args (d :: 125 :: rest) (pending ++ [123]) n
    | ch :: rest => phraseLoop sx fuel scope args rest (pending ++ [ch]) n
end

/-- the documented expansion of a template -/
def expand (sx : SpecCtx R) (t : List Tpl) (fuel : Nat) : List Nat := expandList sx fuel [] t

end
end Qentem.Tmpl
