import Qentem.Model.Tmpl.Render
import Qentem.Model.Group
import Qentem.Model.GroupTmpl
/-!
# C02 — reference of `<loop … group="k">` on the renderer's value stand-in (`Qentem.Tmpl.Doc`)

Documentation/Template.md (Loop, `group`): the items of the set (an array of objects) are bucketed by
the text of THEIR member named `k`; the buckets appear in order of first appearance, every bucket holds
its items in input order, and the grouping member is dropped from the bucketed copies.  The loop then
iterates the buckets (the loop key is the group text, the loop value the array of reduced items).

`groupDocSpec` is that description: it is `Qentem.Value.groupBySpec` (the specification C18 proves the
`GroupBy` model equal to; lookup **by name**, `assocFind`) applied to the visible members of every item,
translated back to a `Doc` whose shape is what a loop iterates: an object `group text ↦ array of objects`.
It answers `none` outside the documented domain (set not an array, an item that is not an object, an item
without the grouping member or whose grouping value has no text): the C02 generator stays inside.

`checks/c02.py` uses it through the driver op `tplgroup`: the documented expansion of a template with
`<loop set="S" group="k" value="v">…` on a value `D` is the expansion (Model/Tmpl/Spec.lean) of the same
template with `set="G"` and no group on `D + {G ↦ groupDocSpec D[S] k}`.
No proofs in this file.
-/
namespace Qentem.Tmpl

/-- visible members of one item (`Qentem.Value.members` of its translation); `none`: not an object -/
def itemMembersSpec (d : Doc) : Option (List (Qentem.Value.Key × Qentem.Value.Doc)) :=
  match Qentem.Value.toValue d with
  | .obj _ slots => some (Qentem.Value.members slots)
  | _ => none

def ofMembers (ms : List (Qentem.Value.Key × Qentem.Value.Doc)) : Doc :=
  .obj (ms.map (fun m => (m.1, Qentem.Value.ofValue m.2)))

/-- the documented grouping of an array of objects by the member named `key` -/
def groupDocSpec (fmtReal : Nat → List Nat) (set : Doc) (key : List Nat) : Option Doc :=
  match set with
  | .arr items =>
    if items.any Doc.isUndefined then none else
    match items.mapM itemMembersSpec with
    | none => none
    | some [] => none
    | some objs =>
      match Qentem.Value.groupBySpec (Qentem.Value.groupText fmtReal []) key objs [] with
      | some groups => some (.obj (groups.map (fun g => (g.1, Doc.arr (g.2.map ofMembers)))))
      | none => none
  | _ => none

end Qentem.Tmpl
