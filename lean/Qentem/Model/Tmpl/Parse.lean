import Qentem.Model.Tmpl.Finder
import Qentem.Model.Tmpl.Tags
/-!
# Template model — `TemplateCore::parse` (`Template.hpp:331-1024`)

The C++ mutates a tree of `Array<TagBit>` through `storage` (pointer to the list being filled) and
`parent_storage` (stack of pointers to the lists above; the *last element* of each is the open
container whose `SubTags` is the list below).  The model keeps the same information as a zipper:
`storage` = the list being filled, `stack` = `Frame`s (parent list minus its open last element +
the fields of that element).  `(*(parent_storage.Last()))->Last()->GetType()` is the constructor of
the top frame.  `loop_tag`/`Parent` is `loopChain`.  The finder is the pair `off`/`mtch`.
All reads of `content` are checked (`rd`); all narrow stores are `trunc bits`.

Not modelled: whether the `LoopTag` a stale `loop_tag` points to is still alive (see
notes/design-tmpl.md for why a destroyed one is unreachable).
-/
namespace Qentem.Tmpl
open Qentem.Expr (Item VarRef Fault rd ScanCfg parseExpressions)
open Qentem.Generated.Tmpl

variable {R : Type}

structure PState (R : Type) where
  storage : List (Tag R) := []
  stack : List (Frame R) := []
  loopChain : List LoopRef := []
  isChild : Bool := false
  off : Nat := 0
  mtch : Nat := 0

/-- `while (offset < end && p(content[offset])) ++offset` -/
def skipWhile (c : List Nat) (endO : Nat) (p : Nat → Bool) : Nat → Nat → Except Fault Nat
  | 0, off => .ok off
  | f + 1, off =>
    if off < endO then do
      let ch ← rd c off
      if p ch then skipWhile c endO p f (off + 1) else .ok off
    else .ok off

def skipW (c : List Nat) (endO : Nat) (p : Nat → Bool) (off : Nat) : Except Fault Nat :=
  skipWhile c endO p (endO + 1 - off) off

/-- `do { ++offset; } while (offset < end && p(content[offset]))` -/
def doSkipW (c : List Nat) (endO : Nat) (p : Nat → Bool) (off : Nat) : Except Fault Nat :=
  skipW c endO p (off + 1)

/-- `StringUtils::IsEqual(content + off, s, |s|)` (stops at the first mismatch) -/
def isEqualAt (c : List Nat) : Nat → List Nat → Except Fault Bool
  | _, [] => .ok true
  | off, x :: xs => do
    let ch ← rd c off
    if ch = x then isEqualAt c (off + 1) xs else .ok false

/-- `(cond) && StringUtils::IsEqual(content + off, s, |s|)` with the short-circuit of `&&`: the
comparison (and its reads) happens only when `cond` holds.  (Written as a function because Lean's
`do` notation would lift a nested `(← isEqualAt …)` in front of the `&&`.) -/
def andEqualAt (cond : Bool) (c : List Nat) (off : Nat) (s : List Nat) : Except Fault Bool :=
  if cond then isEqualAt c off s else .ok false

/-- `StringUtils::IsEqual(content + a, content + b, n)` -/
def isEqualRange (c : List Nat) : Nat → Nat → Nat → Except Fault Bool
  | 0, _, _ => .ok true
  | n + 1, a, b => do
    let x ← rd c a
    let y ← rd c b
    if x = y then isEqualRange c n (a + 1) (b + 1) else .ok false

/-- `checkLoopVariable(content, tag, loop_tag)`: `some (IDLength, Level)` when an enclosing loop's
value name matches (the C++ writes the two fields only then), `none` otherwise -/
def checkLoopVariable (c : List Nat) (varOff : Nat) : List LoopRef → Except Fault (Option (Nat × Nat))
  | [] => .ok none
  | l :: rest => do
    if ← isEqualRange c l.valueLen varOff l.valueStart then .ok (some (l.valueLen, l.level))
    else checkLoopVariable c varOff rest

/-- the pure variant handed to the expression scanner (fresh, zero-initialised `VariableTag`) -/
def loopVarPure (c : List Nat) (chain : List LoopRef) (o : Nat) : Nat × Nat :=
  match checkLoopVariable c o chain with
  | .ok (some r) => r
  | _ => (0, 0)

/-- a freshly inserted (zero-initialised) variable tag -/
def mkVar (c : List Nat) (chain : List LoopRef) (off len : Nat) : Except Fault VarRef := do
  match ← checkLoopVariable c off chain with
  | some (idLen, level) => .ok ⟨off, len, idLen, level⟩
  | none => .ok ⟨off, len, 0, 0⟩

/-- `tag.Set.Offset = …; tag.Set.Length = …; checkLoopVariable(content, tag.Set, tag.Parent)` on the
EXISTING `Set` record: `IDLength`/`Level` of an earlier assignment survive when nothing matches -/
def setVar (c : List Nat) (chain : List LoopRef) (old : VarRef) (off len : Nat) : Except Fault VarRef := do
  match ← checkLoopVariable c off chain with
  | some (idLen, level) => .ok ⟨off, len, idLen, level⟩
  | none => .ok ⟨off, len, old.idLen, old.level⟩

def finderNext (c : List Nat) (st : PState R) : Except Fault (PState R) := do
  let (o, m) ← next c st.off
  .ok { st with off := o, mtch := m }

def push (st : PState R) (fr : Frame R) : PState R :=
  { st with stack := fr :: st.stack, storage := [] }

/-- rebuild the parent list from a frame and the finished child list (`storage = *(parent_storage.Last())`) -/
def closeFrame : Frame R → List (Tag R) → List (Tag R)
  | .svar pre v off, sub => pre ++ [.svar sub v off 0]
  | .iif pre cs f, sub => pre ++ [.iif cs sub f]
  | .loop pre f _, sub => pre ++ [.loop sub f]
  | .ifT pre done cur curOff off, sub => pre ++ [.ifT (done ++ [.mk cur sub curOff 0]) off 0]

/-- the parent list without the open tag (`storage->Drop(1)` right after the pop) -/
def Frame.pre : Frame R → List (Tag R)
  | .svar pre _ _ => pre | .iif pre _ _ => pre | .loop pre _ _ => pre | .ifT pre _ _ _ _ => pre

def exprs (cfg : ScanCfg R) (c : List Nat) (chain : List LoopRef) (off endO : Nat) :
    Except Fault (List (Item R)) :=
  Qentem.Expr.parseTop { cfg with loopVar := loopVarPure c chain } c off endO

/-! ### `parseLoopAttributes` -/

inductive LoopAtt | none | set | value | sort | group
  deriving DecidableEq

def parseLoopAttributes (c : List Nat) (endO : Nat) (parentChain : List LoopRef) :
    Nat → Nat → LoopAtt → LoopFields → Except Fault LoopFields
  | 0, _, _, tag => .ok tag
  | fuel + 1, off0, att0, tag => do
    let off ← skipW c endO (· == W1.spaceChar) off0
    -- the `switch`; `none` = the `default: ++offset; continue;` path
    let sw : Option (Nat × LoopAtt) ← (do
      if off < endO then
        let ch ← rd c off
        if ch = W1.setSortChar then
          let tmp := endO - off
          if (← andEqualAt (decide (tmp > W1.setLength)) c off W1.setStr) then pure (some (off + W1.setLength, LoopAtt.set))
          else if (← andEqualAt (decide (tmp > W1.sortLength)) c off W1.sortStr) then
            pure (some (off + W1.sortLength, LoopAtt.sort))
          else pure (some (off + 1, att0))
        else if ch = W1.valueChar then
          if (← andEqualAt (decide (endO - off > W1.valueLength)) c off W1.valueStr) then
            pure (some (off + W1.valueLength, LoopAtt.value))
          else pure (some (off + 1, att0))
        else if ch = W1.groupChar then
          if (← andEqualAt (decide (endO - off > W1.groupLength)) c off W1.groupStr) then
            pure (some (off + W1.groupLength, LoopAtt.group))
          else pure (some (off + 1, att0))
        else pure none
      else pure (some (off, att0)))
    match sw with
    | none =>
      let off := off + 1
      if off < endO then parseLoopAttributes c endO parentChain fuel off att0 tag else .ok tag
    | some (off, att) =>
      let off ← skipW c endO (· != W1.equalChar) off
      let off ← doSkipW c endO (· == W1.spaceChar) off
      if off < endO then
        let attOff := off + 1
        let quote ← rd c off
        let off ← doSkipW c endO (· != quote) off
        let tag ← (match att with
          | .set => do
            let v ← setVar c parentChain tag.set attOff (trunc bits_VariableTag_Length (off - attOff))
            pure { tag with set := v }
          | .value => pure { tag with valueOff := trunc bits_LoopTag_ValueOffset (attOff - tag.off),
                                      valueLen := trunc bits_LoopTag_ValueLength (off - attOff) }
          | .sort => do
            let ch ← rd c attOff
            pure { tag with options := tag.options ||| (if ch = W1.sortAscendChar then sortAscend else sortDescend) }
          | .group => pure { tag with groupOff := trunc bits_LoopTag_GroupOffset (attOff - tag.off),
                                      groupLen := trunc bits_LoopTag_GroupLength (off - attOff) }
          | .none => pure tag : Except Fault LoopFields)
        let off := off + 1
        if off < endO then parseLoopAttributes c endO parentChain fuel off att tag else .ok tag
      else .ok tag

/-! ### `parseIfCase` → (offset, case_offset, case_end_offset) -/

def parseIfCase (c : List Nat) (off0 endO : Nat) : Except Fault (Nat × Nat × Nat) := do
  let off ← skipW c endO (· == W1.spaceChar) off0
  if (← andEqualAt (decide (off < endO) && decide (endO - off > W1.caseLength)) c off W1.caseStr) then
    let off := off + W1.caseLength
    let off ← skipW c endO (· != W1.equalChar) off
    let off ← doSkipW c endO (· == W1.spaceChar) off
    if off < endO then
      let quote ← rd c off
      let caseOff := off + 1
      let caseEnd ← skipW c endO (· != quote) caseOff
      let off ← skipW c endO (· != W1.multiLineLastChar) caseEnd
      .ok (off + 1, caseOff, caseEnd)
    else .ok (off, 0, 0)
  else .ok (off, 0, 0)

/-! ### the attribute scan of an inline-if at its closing `}` (`case LineEndID`, `InLineIf`) -/

structure IifScan where
  f : IifFields
  repush : Bool := false

/-- the `do { … } while (++offset < end_offset)` loop -/
def iifAttrs (c : List Nat) (endO : Nat) (trueOffset : Nat) :
    Nat → Nat → Bool → IifFields → Except Fault IifScan
  | 0, _, _, f => .ok { f := f }
  | fuel + 1, off0, tru0, f => do
    let off ← skipW c endO (· == W1.spaceChar) off0
    if off < endO then
      let ch ← rd c off
      -- `some (off, tru)` = go on with the attribute; `none` = `break`
      let hd : Option (Nat × Bool) ← (do
        if ch = W1.trueChar then
          if (← andEqualAt (decide (endO - off > W1.trueLength)) c off W1.trueStr) then
            pure (some (off + W1.trueLength, true))
          else pure (some (off, tru0))
        else if (← andEqualAt (decide (ch = W1.falseChar) && decide (endO - off > W1.falseLength)) c off W1.falseStr) then
          pure (some (off + W1.falseLength, tru0))
        else pure none)
      match hd with
      | none => .ok { f := f }
      | some (off, tru) =>
        let off ← skipW c endO (· != W1.equalChar) off
        let off ← doSkipW c endO (· == W1.spaceChar) off
        if off < endO then
          let quote ← rd c off
          let attOff := off + 1
          let off ← skipW c endO (· != quote) attOff
          if off < endO then
            let f' : IifFields :=
              if tru then { f with trueOff := trunc bits_InLineIfTag_TrueOffset (attOff - f.off),
                                      trueLen := trunc bits_InLineIfTag_TrueLength (off - attOff) }
              else { f with falseOff := trunc bits_InLineIfTag_FalseOffset (attOff - f.off),
                            falseLen := trunc bits_InLineIfTag_FalseLength (off - attOff) }
            let tru' := if tru then false else tru
            let off := off + 1
            if off < endO then iifAttrs c endO trueOffset fuel off tru' f' else .ok { f := f' }
          else
            -- found '}' inside `true`/`false`: go back into the tag
            .ok { f := { f with trueOff := trunc bits_InLineIfTag_TrueOffset trueOffset }, repush := true }
        else
          let off := off + 1
          if off < endO then iifAttrs c endO trueOffset fuel off tru f else .ok { f := f }
    else
      let off := off + 1
      if off < endO then iifAttrs c endO trueOffset fuel off tru0 f else .ok { f := f }

/-- offset used by the "Set StartID" scan for one sub tag; `none` = the `default:` case -/
def subTagOffset : Tag R → Option Nat
  | .var v => some v.off
  | .raw v => some v.off
  | .math _ off _ => some off
  | _ => none

/-- the content range of a sub tag for the test added in bc59b89 (`none`: not allowed there) -/
def subTagRange : Tag R → Option (Nat × Nat)
  | .var v => some (v.off - W1.variablePrefixLength, v.off + v.len + W1.inLineSuffixLength)
  | .raw v => some (v.off - W1.variablePrefixLength, v.off + v.len + W1.inLineSuffixLength)
  | .math _ off endOff => some (off, endOff)
  | _ => none

/-- the sub tag number `i` sits inside the value it is rendered with: the first `id` sub tags belong
to the value that comes first (`true` when `TrueOffset < FalseOffset`) -/
def insideRole (f : IifFields) (id i : Nat) (t : Tag R) : Bool :=
  match subTagRange t with
  | none => false
  | some (s, e) =>
    let tS := f.off + f.trueOff
    let fS := f.off + f.falseOff
    let inTrue := decide (i < id) == decide (f.trueOff < f.falseOff)
    decide (s ≤ e) &&
      (if inTrue then decide (tS ≤ s) && decide (e ≤ tS + f.trueLen)
       else decide (fS ≤ s) && decide (e ≤ fS + f.falseLen))

/-- `insideRole` of every sub tag, numbered from `i` -/
def allRole (f : IifFields) (id : Nat) : Nat → List (Tag R) → Bool
  | _, [] => true
  | i, t :: rest => insideRole f id i t && allRole f id (i + 1) rest

/-- the `while (s_tag < s_tag_end)` loop: `(id, skip)` -/
def startIdScan (firstOffset : Nat) : List (Tag R) → Nat → Nat × Bool
  | [], id => (id, false)
  | t :: rest, id =>
    match subTagOffset t with
    | none => (id, true)
    | some o => if o ≥ firstOffset then (id, false) else startIdScan firstOffset rest (id + 1)

/-- `case LineEndID` with an inline-if frame on top: returns the new state (finder untouched) -/
def closeIif (c : List Nat) (st : PState R) (pre : List (Tag R)) (cs : List (Item R))
    (f0 : IifFields) (rest : List (Frame R)) : Except Fault (PState R) := do
  let sub := st.storage
  let endO := st.off
  let trueOffset := f0.trueOff
  let f1 : IifFields := { f0 with trueOff := 0, len := trunc bits_InLineIfTag_Length (endO - f0.off) }
  let start := f0.off + trueOffset
  let sc ← (if start < endO then iifAttrs c endO trueOffset (endO + 2) start false f1
            else
              -- the do-while body runs once even when `offset ≥ end_offset`
              iifAttrs c endO trueOffset 1 start false f1)
  let f := sc.f
  if f.trueOff ≠ 0 ∨ f.falseOff ≠ 0 then
    let firstOffset := (if f.trueOff < f.falseOff then f.falseOff else f.trueOff) + f.off
    let (id, skip) := startIdScan firstOffset sub 0
    -- bc59b89 + the role-aware repair: when the tag is final, every sub tag has to be a var / raw /
    -- math tag inside the value it will be rendered with, and the two offsets must differ (equal
    -- offsets: the 16-bit fields wrapped); otherwise the inline-if is dropped
    let outside := !skip && !sc.repush && !(decide (f.trueOff ≠ f.falseOff) && allRole f id 0 sub)
    if skip then
      -- `storage->Drop(1)`: the current storage loses its last element
      if sc.repush then
        .ok { st with stack := .iif pre cs f :: rest, storage := sub.dropLast, isChild := true }
      else .ok { st with stack := rest, storage := pre, isChild := false }
    else if outside then .ok { st with stack := rest, storage := pre, isChild := false }
    else
      let f := if f.trueOff < f.falseOff then { f with falseStart := trunc bits_InLineIfTag_FalseTagsStartID id }
               else { f with trueStart := trunc bits_InLineIfTag_TrueTagsStartID id }
      if sc.repush then .ok { st with stack := .iif pre cs f :: rest, storage := sub, isChild := true }
      else .ok { st with stack := rest, storage := pre ++ [.iif cs sub f], isChild := false }
  else
    -- both zero: `storage->Drop(1)`
    if sc.repush then .ok { st with stack := .iif pre cs f :: rest, storage := sub.dropLast, isChild := true }
    else .ok { st with stack := rest, storage := pre, isChild := false }

/-! ### one iteration of the main `while ((match = finder.GetMatch()) != 0U)` -/

def stepLineEnd (c : List Nat) (st : PState R) : Except Fault (PState R) := do
  let st ← (match st.isChild, st.stack with
    | true, fr :: rest =>
      match fr with
      | .svar pre v off => pure { st with isChild := false, stack := rest,
                                          storage := pre ++ [.svar st.storage v off st.off] }
      | .iif pre cs f => closeIif c st pre cs f rest
      -- 369bade: the loop whose frame is closed here is no longer the current loop
      | .loop pre f pc => pure { st with isChild := false, stack := rest,
                                         storage := closeFrame (.loop pre f pc) st.storage, loopChain := pc }
      | other => pure { st with isChild := false, stack := rest, storage := closeFrame other st.storage }
    | _, _ => pure st : Except Fault (PState R))
  finderNext c st

def stepVar (c : List Nat) (st : PState R) (raw : Bool) : Except Fault (PState R) := do
  let offset := st.off
  let st ← finderNext c st
  if st.mtch = W1.lineEndID then
    let len := ((st.off - offset) - W1.inLineSuffixLength) % 256
    let st ← (if len ≠ 0 then do
        let v ← mkVar c st.loopChain offset (trunc bits_VariableTag_Length len)
        pure { st with storage := st.storage ++ [if raw then .raw v else .var v] }
      else pure st : Except Fault (PState R))
    finderNext c st
  else .ok st

/-- the `while (true)` of `case MathID`: returns (state, end_offset) -/
def mathScan (c : List Nat) : Nat → PState R → Nat → Except Fault (PState R × Nat)
  | 0, st, _ => .ok (st, 0)
  | fuel + 1, st, skipVar => do
    let (st, skipVar) ← (if st.mtch < W1.mathID ∧ st.mtch ≠ W1.lineEndID then do
        let st ← finderNext c st
        pure (st, skipVar + 1)
      else pure (st, skipVar) : Except Fault (PState R × Nat))
    if st.mtch = W1.lineEndID then
      if skipVar ≠ 0 then do
        let st ← finderNext c st
        mathScan c fuel st (skipVar - 1)
      else do
        let e := st.off
        let st ← finderNext c st
        .ok (st, e)
    else .ok (st, 0)

def stepMath (cfg : ScanCfg R) (c : List Nat) (st : PState R) : Except Fault (PState R) := do
  let offset := st.off
  let st ← finderNext c st
  let (st, endO) ← mathScan c (c.length + 2) st 0
  if endO ≠ 0 then
    let ex ← exprs cfg c st.loopChain offset (endO - W1.inLineSuffixLength)
    .ok { st with storage := st.storage ++ [.math ex (offset - W1.mathPrefixLength) endO] }
  else .ok st

def stepSvar (c : List Nat) (st : PState R) : Except Fault (PState R) := do
  let idOff := st.off
  let svarOff := idOff - W1.superVariablePrefixLength
  let st ← finderNext c st
  let endO := st.off
  let off ← skipW c endO (· != W1.variablesSeparatorChar) idOff
  let len := trunc bits_VariableTag_Length ((off - idOff) % 256)
  if len ≠ 0 then
    .ok { push st (.svar st.storage ⟨idOff, len, 0, 0⟩ svarOff) with isChild := true }
  else .ok st

/-- the `while ((match = finder.GetMatch()) != 0U)` inside `case InLineIfID`:
(state, offset, end_offset); `state.mtch = 0` when the closing quote was not found -/
def iifQuote (c : List Nat) (quote : Nat) : Nat → PState R → Nat → Nat → Except Fault (PState R × Nat)
  | 0, st, off, _ => .ok ({ st with mtch := 0 }, off)
  | fuel + 1, st, off, endO =>
    if st.mtch ≠ 0 then do
      let off ← skipW c endO (· != quote) off
      if off < endO then .ok (st, off)
      else do
        let st ← finderNext c st
        if st.mtch = W1.lineEndID then do
          let st ← finderNext c st
          iifQuote c quote fuel st off st.off
        else .ok (st, off)
    else .ok (st, off)

def stepIif (cfg : ScanCfg R) (c : List Nat) (st : PState R) : Except Fault (PState R) := do
  let offset := st.off
  let iifOff := offset - W1.inLineIfPrefixLength
  let st ← finderNext c st
  let endO := st.off
  let off ← skipW c endO (· == W1.spaceChar) offset
  if (← andEqualAt (decide (off < endO) && decide (endO - off > W1.caseLength)) c off W1.caseStr) then
    let off := off + W1.caseLength
    let off ← skipW c endO (· != W1.equalChar) off
    let off ← doSkipW c endO (· == W1.spaceChar) off
    if off < endO then
      let quote ← rd c off
      let caseOff := off + 1
      let (st, off) ← iifQuote c quote (c.length + 2) st caseOff endO
      if st.mtch ≠ 0 then
        let cs ← exprs cfg c st.loopChain caseOff off
        let f : IifFields := { off := iifOff, trueOff := trunc bits_InLineIfTag_TrueOffset (off + 1 - iifOff) }
        .ok { push st (.iif st.storage cs f) with isChild := true }
      else .ok st
    else .ok st
  else .ok st

def stepLoop (c : List Nat) (st : PState R) : Except Fault (PState R) := do
  let offset := st.off
  let loopOff := offset - W1.loopPrefixLength
  let st ← finderNext c st
  let endO := st.off
  let off ← skipW c endO (· != W1.multiLineLastChar) offset
  if off < endO then
    let tag0 : LoopFields := { off := loopOff, level := trunc bits_LoopTag_Level st.stack.length }
    let tag ← parseLoopAttributes c off st.loopChain (off + 2) (loopOff + W1.loopPrefixLength) .none tag0
    let tag := { tag with contentOff := trunc bits_LoopTag_ContentOffset (off + W1.multiLineSuffixLength - loopOff) }
    let ref : LoopRef := ⟨tag.off + tag.valueOff, tag.valueLen, tag.level⟩
    .ok { push st (.loop st.storage tag st.loopChain) with loopChain := ref :: st.loopChain }
  else .ok st

def stepLoopEnd (c : List Nat) (st : PState R) : Except Fault (PState R) := do
  let st ← (match st.loopChain, st.stack with
    | _ :: _, .loop pre f parentChain :: rest =>
      let f := { f with endOff := st.off - W1.loopSuffixLength }
      let storage := if f.endOff < f.off + f.contentOff then pre else pre ++ [.loop st.storage f]
      pure { st with stack := rest, storage := storage, loopChain := parentChain }
    | _, _ => pure st : Except Fault (PState R))
  finderNext c st

def stepIf (cfg : ScanCfg R) (c : List Nat) (st : PState R) : Except Fault (PState R) := do
  let ifOff := st.off - W1.ifPrefixLength
  let (off, caseOff, caseEnd) ← parseIfCase c st.off c.length
  let st := { st with off := off }
  let st ← (if off < c.length then do
      let cs ← exprs cfg c st.loopChain caseOff caseEnd
      pure (push st (.ifT st.storage [] cs off ifOff))
    else pure st : Except Fault (PState R))
  finderNext c st

def stepIfEnd (c : List Nat) (st : PState R) : Except Fault (PState R) := do
  let st := (match st.stack with
    | .ifT pre done cur curOff off :: rest =>
      { st with stack := rest,
                storage := pre ++ [.ifT (done ++ [.mk cur st.storage curOff (st.off - W1.ifSuffixLength)]) off st.off] }
    | _ => st)
  finderNext c st

/-- the scan after `<else` for `>` or `i` -/
def elseScan (c : List Nat) : Nat → Nat → Except Fault (Nat × Bool)
  | 0, off => .ok (off, false)
  | fuel + 1, off =>
    if off < c.length then do
      let ch ← rd c off
      if ch = W1.multiLineLastChar then .ok (off, false)
      else if ch = W1.ifPrefixFirst then .ok (off + W1.ifAfterElseLength, true)
      else elseScan c fuel (off + 1)
    else .ok (off, false)

def stepElse (cfg : ScanCfg R) (c : List Nat) (st : PState R) : Except Fault (PState R) := do
  match st.stack with
  | .ifT pre done cur curOff off :: rest =>
    let done' := done ++ [IfCase.mk cur st.storage curOff (st.off - W1.elsePrefixLength)]
    let (o, isIfElse) ← elseScan c (c.length + 1) st.off
    if isIfElse then
      let (o, caseOff, caseEnd) ← parseIfCase c o c.length
      let st ← finderNext c { st with off := o }
      if o < c.length ∧ caseEnd ≠ 0 then
        let cs ← exprs cfg c st.loopChain caseOff caseEnd
        .ok { st with stack := .ifT pre done' cs o off :: rest, storage := [] }
      else
        -- bad else: drop the whole <if>
        finderNext c { st with stack := rest, storage := pre }
    else if o < c.length then
      finderNext c { st with stack := .ifT pre done' [] (o + 1) off :: rest, storage := [], off := o + 1 }
    else
      finderNext c { st with stack := rest, storage := pre }
  | _ => finderNext c st

def step (cfg : ScanCfg R) (c : List Nat) (st : PState R) : Except Fault (PState R) :=
  let m := st.mtch
  if m = W1.lineEndID then stepLineEnd c st
  else if m = W1.variableID then stepVar c st false
  else if m = W1.rawVariableID then stepVar c st true
  else if m = W1.mathID then stepMath cfg c st
  else if m = W1.superVariableID then stepSvar c st
  else if m = W1.inLineIfID then stepIif cfg c st
  else if m = W1.loopID then stepLoop c st
  else if m = W1.loopEndID then stepLoopEnd c st
  else if m = W1.ifID then stepIf cfg c st
  else if m = W1.ifEndID then stepIfEnd c st
  else if m = W1.elseID then stepElse cfg c st
  else .ok st

def parseMain (cfg : ScanCfg R) (c : List Nat) : Nat → PState R → Except Fault (PState R)
  | 0, _ => .error .fuel
  | fuel + 1, st => if st.mtch ≠ 0 then do parseMain cfg c fuel (← step cfg c st) else .ok st

/-- the final `while (parent_storage.Size() != 0)`: every still-open container is dropped -/
def cleanup : List (Frame R) → List (Tag R) → List (Tag R)
  | [], storage => storage
  | fr :: rest, _ => cleanup rest fr.pre

/-- `TemplateCore::Parse(tags_cache)` on an empty cache -/
def parse (cfg : ScanCfg R) (c : List Nat) : Except Fault (List (Tag R)) := do
  let st ← finderNext c ({} : PState R)
  let st ← parseMain cfg c (2 * c.length + 4) st
  .ok (cleanup st.stack st.storage)

end Qentem.Tmpl
