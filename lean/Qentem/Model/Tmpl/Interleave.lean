/-!
# C17 — a generic small-step system: shared read-only state, per-thread private state

`step : S → P → P` is one step of a thread: it reads the shared state `S` (content, tags, value)
and its own private state `P` (stream, loop items, cursor) and writes only the latter.  A schedule
is the list of thread indices in the order their steps happen.
-/
namespace Qentem.Interleave

def update {P : Type} (st : Nat → P) (i : Nat) (p : P) : Nat → P := fun j => if j = i then p else st j

/-- run the steps in schedule order -/
def runSched {S P : Type} (step : S → P → P) (s : S) : List Nat → (Nat → P) → (Nat → P)
  | [], st => st
  | i :: rest, st => runSched step s rest (update st i (step s (st i)))

/-- `n` steps of one thread alone -/
def iter {S P : Type} (step : S → P → P) (s : S) : Nat → P → P
  | 0, p => p
  | n + 1, p => iter step s n (step s p)

end Qentem.Interleave
