import Qentem.Model.Expr
import Qentem.Generated.Tmpl
/-!
# Template model — tag records (`Tags.hpp:39-345`, `VariableTag.hpp`)

`TagBit` (tagged pointer) + the seven records become one inductive `Tag`.  Narrow fields
(`SizeT8`, `SizeT16`) are `Nat`s; every store into them in `Parse.lean` is written `% 2^k` with `k`
from `Qentem.Generated.Tmpl.bits_*`.  `LoopTag::Parent` is only used while parsing
(`checkLoopVariable`), so it is not part of the record: the parser carries the chain (`LoopRef`).
-/
namespace Qentem.Tmpl
open Qentem.Expr (Item VarRef)

/-- `InLineIfTag` without `Case`/`SubTags` -/
structure IifFields where
  off : Nat := 0
  len : Nat := 0
  trueOff : Nat := 0
  trueLen : Nat := 0
  falseOff : Nat := 0
  falseLen : Nat := 0
  trueStart : Nat := 0
  falseStart : Nat := 0
  deriving Repr, DecidableEq, Inhabited

/-- `LoopTag` without `SubTags`/`Parent` -/
structure LoopFields where
  set : VarRef := ⟨0, 0, 0, 0⟩
  off : Nat := 0
  endOff : Nat := 0
  contentOff : Nat := 0
  valueOff : Nat := 0
  valueLen : Nat := 0
  groupOff : Nat := 0
  groupLen : Nat := 0
  options : Nat := 0
  level : Nat := 0
  deriving Repr, DecidableEq, Inhabited

mutual
inductive Tag (R : Type) where
  | var (v : VarRef)
  | raw (v : VarRef)
  | math (exprs : List (Item R)) (off endOff : Nat)
  | svar (sub : List (Tag R)) (v : VarRef) (off endOff : Nat)
  | iif (case : List (Item R)) (sub : List (Tag R)) (f : IifFields)
  | loop (sub : List (Tag R)) (f : LoopFields)
  | ifT (cases : List (IfCase R)) (off endOff : Nat)
inductive IfCase (R : Type) where
  | mk (case : List (Item R)) (sub : List (Tag R)) (off endOff : Nat)
end

/-- what `checkLoopVariable` reads from one enclosing `LoopTag`:
`Offset + ValueOffset`, `ValueLength`, `Level` -/
structure LoopRef where
  valueStart : Nat
  valueLen : Nat
  level : Nat
  deriving Repr, DecidableEq

/-- one entry of `parent_storage` together with the open container tag that is the last element
of that parent list: `pre` = the parent list without it. -/
inductive Frame (R : Type) where
  | svar (pre : List (Tag R)) (v : VarRef) (off : Nat)
  | iif (pre : List (Tag R)) (case : List (Item R)) (f : IifFields)
  | loop (pre : List (Tag R)) (f : LoopFields) (parentChain : List LoopRef)
  | ifT (pre : List (Tag R)) (done : List (IfCase R)) (curCase : List (Item R)) (curOff : Nat)
      (off : Nat)

def trunc (bits n : Nat) : Nat := n % 2 ^ bits

end Qentem.Tmpl
