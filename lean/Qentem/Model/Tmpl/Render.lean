import Qentem.Model.Tmpl.Parse
import Qentem.Model.Escape
/-!
# Template model — `TemplateCore::render…` and `getValue` (`Template.hpp:1026-1409`)

The renderer is a function of `(content, tags, value)`; the two mutable members of the C++ object
are explicit: `out` (what was appended to `stream_`) and `items` (`loops_items_`).  Checked
semantics: `content_ + a … + (b - a)` is `slice` (fails when `b < a` — the C++ length would wrap — or
`b > length`), `loops_items_->Storage()[Level]` is a checked index, `s_tag + id` a checked `take`.

`Doc` is a minimal stand-in for `Value` (the full model is another area): what `GetValue(key)`,
`GetValue(index)`, `SetValueAndKey`, `Size`, `IsObject`, `CopyValueTo`, `SetNumber`,
`SetCharAndLength` observe.  Object members keep their slot order and may be `undefined`
(= removed).  Parameters: `fmtReal` (`Digit::NumberToString(double, {TemplatePrecision,…})`),
`groupBy`, `sortDoc` (`Value::GroupBy/Sort`), `readNum`, `realOfBits`.
-/
namespace Qentem.Tmpl
open Qentem.Expr (Item VarRef Fault rd Env VarVal Num Val RealLike)
open Qentem.Generated.Tmpl

inductive Doc where
  | undefined | null | tru | fals
  | nat (n : Nat) | int (bits : Nat) | real (bits : Nat)
  | str (s : List Nat)
  | arr (items : List Doc)
  | obj (members : List (List Nat × Doc))
  deriving Repr, Inhabited

def Doc.isUndefined : Doc → Bool
  | .undefined => true | _ => false

/-- the element a key denotes on an array (`Value::GetValue(key, length)`, after the repair "array key must be a
plain decimal index"): 1 to 10 decimal digits; anything else (the empty key, `:`, a sign, eleven digits …) denotes
no element.  Before the repair the key went unvalidated through `Digit::FastStringToNumber<SizeT>` (32-bit wrap). -/
def keyIndex (key : List Nat) : Option Nat :=
  if key.length = 0 ∨ key.length > 10 then none
  else if key.all (fun ch => decide (W1.digitZero ≤ ch ∧ ch ≤ W1.digitZero + 9)) then
    some (key.foldl (fun a ch => a * 10 + (ch - W1.digitZero)) 0)
  else none

/-- `Value::GetValue(key, length)` -/
def Doc.getKey : Doc → List Nat → Option Doc
  | .obj ms, key =>
    match ms.find? (fun m => m.1 == key) with
    | some (_, v) => if v.isUndefined then none else some v
    | none => none
  | .arr xs, key =>
    match keyIndex key with
    | some i =>
      match xs[i]? with
      | some v => if v.isUndefined then none else some v
      | none => none
    | none => none
  | _, _ => none

/-- `Value::GetValue(index)` -/
def Doc.getIdx : Doc → Nat → Option Doc
  | .obj ms, i => match ms[i]? with
    | some (_, v) => if v.isUndefined then none else some v
    | none => none
  | .arr xs, i => match xs[i]? with
    | some v => if v.isUndefined then none else some v
    | none => none
  | _, _ => none

def Doc.size : Doc → Nat
  | .obj ms => ms.length | .arr xs => xs.length | _ => 0

def Doc.isObject : Doc → Bool
  | .obj _ => true | _ => false

structure LoopItem where
  value : Option Doc := none
  key : List Nat := []

structure RCtx (R : Type) where
  content : List Nat
  root : Doc
  readNum : List Nat → Option (Num R)
  realOfBits : Nat → R
  fmtReal : Nat → List Nat
  groupBy : Doc → List Nat → Option Doc
  sortDoc : Doc → Bool → Doc
  autoEscape : Bool := autoEscapeHTML
  realBits : R → Nat
  /-- the bound check before `id[offset2]` added in /repo 487b090 (`false` = the code before) -/
  guardIndexRead : Bool := true

structure RState where
  out : List Nat := []
  items : List LoopItem := []

variable {R : Type}

/-- `content_ + a`, length `b - a` -/
def slice (c : List Nat) (a b : Nat) : Except Fault (List Nat) :=
  if a ≤ b ∧ b ≤ c.length then .ok ((c.drop a).take (b - a))
  else .error (.oobRead b c.length)

/-- `s_tag + id` as the end / the start of a sub range (fails beyond `End()`) -/
def takeChk {α : Type} (l : List α) (n : Nat) : Except Fault (List α) :=
  if n ≤ l.length then .ok (l.take n) else .error (.oobRead n l.length)
def dropChk {α : Type} (l : List α) (n : Nat) : Except Fault (List α) :=
  if n ≤ l.length then .ok (l.drop n) else .error (.oobRead n l.length)

/-- `a - b` where the C++ `SizeT` difference would wrap -/
def subChk (a b : Nat) : Except Fault Nat :=
  if b ≤ a then .ok (a - b) else .error (.oobRead 0 0)

def emit (st : RState) (s : List Nat) : RState := { st with out := st.out ++ s }

/-- decimal digits of `n`, most significant first, prepended to `acc` (fuel ≥ number of digits) -/
def decimalF : Nat → Nat → List Nat → List Nat
  | 0, _, acc => acc
  | f + 1, n, acc => if n < 10 then (48 + n) :: acc else decimalF f (n / 10) ((48 + n % 10) :: acc)

/-- `Digit::NumberToString` of an unsigned integer (plain decimal) -/
def decimal (n : Nat) : List Nat := decimalF (n + 1) n []

def signedDecimal (bits : Nat) : List Nat :=
  if bits < Qentem.Expr.H64 then decimal bits else 45 :: decimal (Qentem.Expr.W64 - bits)

def itemAt (st : RState) (level : Nat) : Except Fault LoopItem :=
  match st.items[level]? with
  | some it => .ok it
  | none => .error (.oobRead level st.items.length)

/-- the `while (value != nullptr)` loop of `getValue`; `base` = `variable.Offset` -/
def getValuePath (cx : RCtx R) (base length : Nat) :
    Nat → Option Doc → Nat → Nat → Except Fault (Option Doc)
  | 0, v, _, _ => .ok v
  | fuel + 1, v, offset, offset2 =>
    match v with
    | none => .ok none
    | some d => do
      let o2 ← skipW cx.content (base + length) (· != W1.variableIndexSuffix) (base + offset2)
      let offset2 := o2 - base
      let key ← (if offset2 = offset then pure [] else slice cx.content (base + offset) (base + offset2))
      let v' := d.getKey key
      let offset2 := offset2 + 1
      if cx.guardIndexRead && offset2 ≥ length then .ok v'
      else do
        let ch ← rd cx.content (base + offset2)
        if ch ≠ W1.variableIndexPrefix then .ok v'
        else getValuePath cx base length fuel v' (offset2 + 1) (offset2 + 1)

/-- `getValue(variable)` -/
def getValue (cx : RCtx R) (st : RState) (v : VarRef) : Except Fault (Option Doc) := do
  let base := v.off
  let length := v.len
  let hasIndex ← (if length ≠ 0 then do
      let ch ← rd cx.content (base + length - 1)
      pure (ch == W1.variableIndexSuffix)
    else pure false : Except Fault Bool)
  if v.idLen = 0 then
    if !hasIndex then do
      let key ← slice cx.content base (base + length)
      .ok (cx.root.getKey key)
    else do
      let o ← skipW cx.content (base + length) (· != W1.variableIndexPrefix) base
      let offset := o - base
      let value ← (if offset ≠ 0 then do
          let key ← slice cx.content base (base + offset)
          pure (cx.root.getKey key)
        else pure none : Except Fault (Option Doc))
      getValuePath cx base length (length + 2) value (offset + 1) (offset + 1)
  else do
    let it ← itemAt st v.level
    if !hasIndex then .ok it.value
    else getValuePath cx base length (length + 2) it.value (v.idLen + 1) (v.idLen + 1)

/-- `Value::CopyValueTo(stream, format, escape?)`; `none` = returned `false` -/
def copyValue (cx : RCtx R) (esc : Bool) : Doc → Option (List Nat)
  | .str s => some (if esc then Qentem.Escape.escapeCfg cx.autoEscape s else s)
  | .nat n => some (decimal n)
  | .int b => some (signedDecimal b)
  | .real b => some (cx.fmtReal b)
  | .tru => some Qentem.Expr.trueStr
  | .fals => some Qentem.Expr.falseStr
  | .null => some Qentem.Expr.nullStr
  | _ => none

/-- the key of the loop item a loop-bound variable refers to (`tag.IDLength != 0`, non-empty key) -/
def loopKeyText (st : RState) (v : VarRef) : Except Fault (Option (List Nat)) :=
  if v.idLen = 0 then .ok none
  else
    match itemAt st v.level with
    | .ok it => .ok (if it.key.length = 0 then none else some it.key)
    | .error e => .error e

def renderVariable (cx : RCtx R) (st : RState) (v : VarRef) (offset : Nat) : Except Fault (RState × Nat) := do
  let tOff ← subChk v.off W1.variablePrefixLength
  let len := v.len + W1.variableFullLength
  let st := emit st (← slice cx.content offset tOff)
  let offset := tOff + len
  let value ← getValue cx st v
  match value.bind (copyValue cx true) with
  | some txt => .ok (emit st txt, offset)
  | none =>
    let keyTxt ← loopKeyText st v
    match keyTxt with
    | some k => .ok (emit st (Qentem.Escape.escapeCfg cx.autoEscape k), offset)
    | none =>
      let src ← slice cx.content tOff (tOff + len)
      .ok (emit st (Qentem.Escape.escapeCfg cx.autoEscape src), offset)

def renderRawVariable (cx : RCtx R) (st : RState) (v : VarRef) (offset : Nat) : Except Fault (RState × Nat) := do
  let tOff ← subChk v.off W1.rawVariablePrefixLength
  let len := v.len + W1.rawVariableFullLength
  let st := emit st (← slice cx.content offset tOff)
  let offset := tOff + len
  let value ← getValue cx st v
  match value.bind (copyValue cx false) with
  | some txt => .ok (emit st txt, offset)
  | none => .ok (emit st (← slice cx.content tOff (tOff + len)), offset)

section
variable [RealLike R]

def docToVarVal (cx : RCtx R) : Doc → VarVal R
  | .nat n => .nat n | .int b => .int b | .real b => .real (cx.realOfBits b)
  | .tru => .tru | .fals => .fals | .null => .null | .str s => .str s
  | _ => .other

mutual
def operandVars : Qentem.Expr.Operand R → List VarRef
  | .var v => [v]
  | .sub items => itemsVars items
  | _ => []
def itemsVars : List (Item R) → List VarRef
  | [] => []
  | (x, _) :: rest => operandVars x ++ itemsVars rest
end

/-- resolve every variable of an expression through `getValue` -/
def resolveVars (cx : RCtx R) (st : RState) : List VarRef → Except Fault (List (VarRef × Option (VarVal R)))
  | [] => .ok []
  | v :: rest => do
    let d ← getValue cx st v
    let r ← resolveVars cx st rest
    .ok ((v, d.map (docToVarVal cx)) :: r)

/-- `evaluate(result, expr, NoOp)` on a tag's expression list.  Variables are resolved first (a
faulting `getValue` faults the evaluation; the C++ resolves them on demand). -/
def evalExprs (cx : RCtx R) (st : RState) (items : List (Item R)) : Except Fault (Option (Val R)) :=
  if items.isEmpty then .ok none
  else do
    let resolved ← resolveVars cx st (itemsVars items)
    let env : Env R := {
      content := cx.content
      lookup := fun v => (resolved.find? (fun p => p.1 == v)).bind (·.2)
      readNum := cx.readNum }
    .ok (Qentem.Expr.evaluateTop env true items)

def renderMath (cx : RCtx R) (st : RState) (ex : List (Item R)) (off endOff offset : Nat) :
    Except Fault (RState × Nat) := do
  let st := emit st (← slice cx.content offset off)
  match ← evalExprs cx st ex with
  | some (.num (.nat b)) => .ok (emit st (decimal b), endOff)
  | some (.num (.int b)) => .ok (emit st (signedDecimal b), endOff)
  | some (.num (.real r)) => .ok (emit st (cx.fmtReal (cx.realBits r)), endOff)
  | some _ => .ok (st, endOff)
  | none => .ok (emit st (← slice cx.content off endOff), endOff)

def truth : Option (Val R) → Option Bool
  | some (.num n) => some n.positive
  | some _ => some false
  | none => none

mutual
/-- `render(tag, end, offset, end_offset)` -/
def render (cx : RCtx R) : Nat → List (Tag R) → Nat → Nat → RState → Except Fault RState
  | 0, _, _, _, _ => .error .fuel
  | _ + 1, [], offset, endO, st => do .ok (emit st (← slice cx.content offset endO))
  | fuel + 1, t :: rest, offset, endO, st => do
    let (st, offset) ← renderTag cx fuel t offset st
    render cx fuel rest offset endO st

def renderTag (cx : RCtx R) : Nat → Tag R → Nat → RState → Except Fault (RState × Nat)
  | 0, _, _, _ => .error .fuel
  | _ + 1, .var v, offset, st => renderVariable cx st v offset
  | _ + 1, .raw v, offset, st => renderRawVariable cx st v offset
  | _ + 1, .math ex off endOff, offset, st => renderMath cx st ex off endOff offset
  | fuel + 1, .svar sub v off endOff, offset, st => do
    let sVar ← getValue cx st v
    let st := emit st (← slice cx.content offset off)
    match sVar.bind (fun d => match d with
        | .str s => some s | .tru => some Qentem.Expr.trueStr | .fals => some Qentem.Expr.falseStr
        | .null => some Qentem.Expr.nullStr | _ => none) with
    | some txt => do
      let st ← svarLoop cx fuel sub txt 0 0 st
      .ok (st, endOff)
    | none => .ok (emit st (← slice cx.content off endOff), endOff)
  | fuel + 1, .iif cs sub f, offset, st => do
    let st := emit st (← slice cx.content offset f.off)
    let offset := f.off + f.len
    match truth (← evalExprs cx st cs) with
    | none => .ok (st, offset)
    | some pos =>
      let tags ← (if pos then
          (if f.trueOff < f.falseOff then takeChk sub f.falseStart else dropChk sub f.trueStart)
        else
          (if f.falseOff < f.trueOff then takeChk sub f.trueStart else dropChk sub f.falseStart))
      let vo := if pos then f.off + f.trueOff else f.off + f.falseOff
      let ve := if pos then vo + f.trueLen else vo + f.falseLen
      let st ← render cx fuel tags vo ve st
      .ok (st, offset)
  | fuel + 1, .loop sub f, offset, st => do
    let st := emit st (← slice cx.content offset f.off)
    let offset := f.endOff + W1.loopSuffixLength
    let loopSet ← (if f.set.len ≠ 0 then getValue cx st f.set else pure (some cx.root))
    match loopSet with
    | none => .ok (st, offset)
    | some set0 => do
      let grouped ← (if f.groupLen ≠ 0 then do
          let key ← slice cx.content (f.off + f.groupOff) (f.off + f.groupOff + f.groupLen)
          pure (cx.groupBy set0 key)
        else pure (some set0) : Except Fault (Option Doc))
      match grouped with
      | none => .ok (st, offset)
      | some set1 =>
        let set2 := if f.options > 1 then cx.sortDoc set1 (f.options &&& sortAscend == sortAscend) else set1
        let items := st.items ++ List.replicate (f.level + 1 - st.items.length) ({} : LoopItem)
        let st := { st with items := items }
        let st ← loopIter cx fuel sub f set2 set2.size 0 st
        .ok (st, offset)
  | fuel + 1, .ifT cases off endOff, offset, st => do
    let st := emit st (← slice cx.content offset off)
    match cases with
    | [] => .ok (st, endOff)
    | .mk cs0 _ _ _ :: _ =>
      if cs0.isEmpty then .ok (st, endOff)
      else do
        let st ← ifCases cx fuel cases st
        .ok (st, endOff)

/-- the `do … while (item < end)` of `renderIf` -/
def ifCases (cx : RCtx R) : Nat → List (IfCase R) → RState → Except Fault RState
  | 0, _, _ => .error .fuel
  | _ + 1, [], st => .ok st
  | fuel + 1, .mk cs sub off endOff :: rest, st => do
    let hit ← (if cs.isEmpty then pure true else do
      pure ((truth (← evalExprs cx st cs)) == some true) : Except Fault Bool)
    if hit then render cx fuel sub off endOff st else ifCases cx fuel rest st

/-- the two `while (loop_index < loop_size)` loops of `renderLoop` -/
def loopIter (cx : RCtx R) : Nat → List (Tag R) → LoopFields → Doc → Nat → Nat → RState → Except Fault RState
  | 0, _, _, _, _, _, _ => .error .fuel
  | fuel + 1, sub, f, set, size, idx, st =>
    if idx < size then do
      let it ← itemAt st f.level
      let it' : LoopItem :=
        if set.isObject then
          match set with
          | .obj ms => (match ms[idx]? with
            | some (k, v) => if v.isUndefined then { it with value := none } else { value := some v, key := k }
            | none => { it with value := none })
          | _ => it
        else { value := set.getIdx idx, key := [] }  -- an array item has no key (a706b51)
      let st := { st with items := st.items.set f.level it' }
      let st ← (if it'.value.isSome then render cx fuel sub (f.off + f.contentOff) f.endOff st else pure st)
      loopIter cx fuel sub f set size (idx + 1) st
    else .ok st

/-- the `while (index < length)` of `renderSuperVariable` over the phrase `txt`; after an unusable
`{N}` the scan resumes at the unit after `{` (f7095b4) -/
def svarLoop (cx : RCtx R) : Nat → List (Tag R) → List Nat → Nat → Nat → RState → Except Fault RState
  | 0, _, _, _, _, _ => .error .fuel
  | fuel + 1, sub, txt, index, lastIdx, st =>
    if index < txt.length then
      if txt[index]? == some W1.inLineFirstChar then
        let st := emit st (Qentem.Escape.escapeCfg cx.autoEscape ((txt.drop lastIdx).take (index - lastIdx)))
        let lastIdx := index
        let index := index + 1
        if index < txt.length then
          let id := ((txt.getD index 0) + 2 ^ sizeTBits - W1.digitZero) % 2 ^ sizeTBits
          let index := index + 1
          if index < txt.length && txt[index]? == some W1.inLineLastChar then
            let index := index + 1
            if id < sub.length then
              match sub[id]? with
              | some (.var v) => do
                let o ← subChk v.off W1.variablePrefixLength
                let (st, _) ← renderVariable cx st v o
                svarLoop cx fuel sub txt index index st
              | some (.raw v) => do
                let o ← subChk v.off W1.rawVariablePrefixLength
                let (st, _) ← renderRawVariable cx st v o
                svarLoop cx fuel sub txt index index st
              | some (.math ex off endOff) => do
                let (st, _) ← renderMath cx st ex off endOff off
                svarLoop cx fuel sub txt index index st
              | _ => svarLoop cx fuel sub txt index index st
            else svarLoop cx fuel sub txt (lastIdx + 1) lastIdx st
          else svarLoop cx fuel sub txt (lastIdx + 1) lastIdx st
        else svarLoop cx fuel sub txt (lastIdx + 1) lastIdx st
      else svarLoop cx fuel sub txt (index + 1) lastIdx st
    else .ok (emit st (Qentem.Escape.escapeCfg cx.autoEscape ((txt.drop lastIdx).take (index - lastIdx))))
end

mutual
def Tag.size : Tag R → Nat
  | .svar sub _ _ _ => tagsSize sub + 1
  | .iif _ sub _ => tagsSize sub + 1
  | .loop sub _ => tagsSize sub + 1
  | .ifT cases _ _ => casesSize cases + 1
  | _ => 1
def tagsSize : List (Tag R) → Nat
  | [] => 0
  | t :: rest => t.size + tagsSize rest
def casesSize : List (IfCase R) → Nat
  | [] => 0
  | .mk _ sub _ _ :: rest => tagsSize sub + 1 + casesSize rest
end

/-- `TemplateCore::Render(tags_cache, value, stream)`: the text appended to the stream.
Fuel: generous bound on the recursion depth (tags × loop sizes are iterated by inner fuel-free
list recursion only through `loopIter`, which gets the same fuel). -/
def renderTop (cx : RCtx R) (tags : List (Tag R)) (fuel : Nat) : Except Fault (List Nat) := do
  let st ← render cx fuel tags 0 cx.content.length {}
  .ok st.out

end
end Qentem.Tmpl
