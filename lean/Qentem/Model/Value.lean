/-
Model of `Qentem::Value<Char_T>` (Include/Value.hpp), together with the parts of
`HArray`/`HashTable` (Include/HArray.hpp, Include/HashTable.hpp) and `Array`
(Include/Array.hpp) that are observable through a Value.

How the C++ was turned into values
* A `Value` is a `Doc`.  The union + `type_` tag become the constructors; `reset()` followed by
  `setTypeToX()` (Value.hpp:203-412, 2169-2190) becomes "the result is the new constructor".
* An object (`HArray<String,Value>`) is `obj cap slots`: `slots` is the item storage in slot order,
  `none` is a removed item (`Hash == 0`, key and value cleared by `HAItem_T::Clear`,
  HashTable.hpp:463-476), `some (k, v)` a live item (its value may still be `undef`: a member
  created by a subscript and never assigned).  `cap` is `Capacity()`: it decides when the table is
  rebuilt (`expand`/`resize`, HashTable.hpp:446,500-520) and a rebuild drops the removed items, so it is
  needed to predict `Size()` and slot numbers.  Hash buckets and chains are not modelled (C13): lookup
  is by key equality over the live items, which is what `find` computes for a well-formed table.
* An array (`Array<Value>`) is `arr items`; `RemoveIndex` leaves an `undef` element
  (Value.hpp:1767-1773).  The array's capacity is not observable through a Value (see `compress`).
* `ValuePtr` is `ptr r`: a reference to the root `r` of a forest `Env = List Doc` of named values (the
  harness keeps every pointee at a fixed address for the whole run).  Getters that follow the pointer
  take the forest as an argument; a cyclic chain (the C++ would not terminate) is cut by fuel.
* `SizeT` is 32 bit; indices and sizes are `Nat` (all sizes in the correspondence domain are small).
* Reals are IEEE-754 binary64 bit patterns (`Nat`); integer <-> real conversions are written out in
  `Nat` arithmetic.  Text <-> number conversions are parameters (`strToNum`, `fmtReal`): they belong to
  C09/C10.
No proofs in this file.
-/
namespace Qentem.Value

abbrev Key := List Nat

inductive Doc where
  | undef | null | tru | fls
  | nat (n : Nat)            -- UIntLong
  | int (i : Int)            -- IntLong
  | real (bits : Nat)        -- Double, bit pattern
  | str (s : List Nat)
  | arr (items : List Doc)
  | obj (cap : Nat) (slots : List (Option (List Nat × Doc)))
  | ptr (root : Nat)
  deriving Repr, Inhabited

abbrev Slot := Option (List Nat × Doc)
abbrev Env := List Doc

namespace Doc

/-- `ValueType` as a number (Value.hpp:34-46). -/
def kindNum : Doc → Nat
  | undef => 0 | ptr _ => 1 | obj _ _ => 2 | arr _ => 3 | str _ => 4
  | nat _ => 5 | int _ => 6 | real _ => 7 | tru => 8 | fls => 9 | null => 10

def isUndef : Doc → Bool
  | undef => true
  | _ => false

def isObj : Doc → Bool
  | obj _ _ => true
  | _ => false

def isArr : Doc → Bool
  | arr _ => true
  | _ => false

end Doc
open Doc

/-! ### Capacity arithmetic (Memory.hpp:150-158 `AlignSize`, HashTable.hpp:407-424 `allocate`) -/

def alignSize (n : Nat) : Nat :=
  let s := 2 ^ Nat.log2 n
  if s < n then s * 2 else s

def allocCap (n : Nat) : Nat := alignSize (n + n % 2)

/-! ### Item storage of an object -/

def liveSlots : List Slot → List Slot
  | [] => []
  | none :: r => liveSlots r
  | some e :: r => some e :: liveSlots r

def liveCount : List Slot → Nat
  | [] => 0
  | none :: r => liveCount r
  | some _ :: r => liveCount r + 1

/-- `find` (HashTable.hpp:522-541): the live item with this key. -/
def slotFind (k : Key) : List Slot → Option Doc
  | [] => none
  | none :: r => slotFind k r
  | some (k', v) :: r => if k' = k then some v else slotFind k r

/-- Slot number of the live item with this key (`GetKeyIndex`). -/
def slotIndex (k : Key) : List Slot → Option Nat
  | [] => none
  | none :: r => (slotIndex k r).map (· + 1)
  | some (k', _) :: r => if k' = k then some 0 else (slotIndex k r).map (· + 1)

/-- find-or-insert then apply `f` to the member's value (`Get`/`operator[]`/`Insert`,
HArray.hpp:155-214): a new item is appended after the last slot with an `undef` value. -/
def slotUpd (k : Key) (f : Doc → Doc) : List Slot → List Slot
  | [] => [some (k, f undef)]
  | none :: r => none :: slotUpd k f r
  | some (k', v) :: r => if k' = k then some (k', f v) :: r else some (k', v) :: slotUpd k f r

/-- `remove` (HashTable.hpp:463-476). -/
def slotRemove (k : Key) : List Slot → List Slot
  | [] => []
  | none :: r => none :: slotRemove k r
  | some (k', v) :: r => if k' = k then none :: r else some (k', v) :: slotRemove k r

/-- `expand()` when `Size() == Capacity()` (HArray.hpp:156-158, HashTable.hpp:446-448,500-520):
the rebuild keeps only live items. -/
def objExpand (c : Nat) (s : List Slot) : Nat × List Slot :=
  if s.length = c then (allocCap (((if c = 0 then 1 else 0) + c) * 2), liveSlots s) else (c, s)

/-- `HArray::operator+=` (HArray.hpp:98-153); `cp` is `id` for the moving overload and `copyDoc` for
the copying one. -/
def objMerge (cp : Doc → Doc) (c : Nat) (s : List Slot) (src : List Slot) : Nat × List Slot :=
  let base : Nat × List Slot :=
    if s.length + src.length > c then (allocCap (s.length + src.length), liveSlots s) else (c, s)
  (base.1, src.foldl (fun acc sl =>
      match sl with
      | some (k, v) => slotUpd k (fun _ => cp v) acc
      | none => acc) base.2)

/-! ### Deep copy: `copyValue` (Value.hpp:2192-2215) → `HashTable::copyTable` (478-498) /
`Array::copyArray` (383-393).  A copied object is rebuilt without its removed items. -/

mutual
def copyDoc : Doc → Doc
  | arr items => arr (copyItems items)
  | obj _ slots => obj (if slots.length = 0 then 0 else allocCap slots.length) (copySlots slots)
  | d => d
def copyItems : List Doc → List Doc
  | [] => []
  | d :: ds => copyDoc d :: copyItems ds
def copySlots : List Slot → List Slot
  | [] => []
  | none :: r => copySlots r
  | some (k, v) :: r => some (k, copyDoc v) :: copySlots r
end

/-! ### Compress (Value.hpp:1785-1843, HashTable.hpp:314-326) -/

mutual
def compress : Doc → Doc
  | arr items => arr (compressItems items)
  | obj c slots =>
      obj (if liveCount slots = 0 then 0 else if liveCount slots < slots.length then allocCap (liveCount slots) else c)
          (compressSlots slots)
  | d => d
/-- undefined elements are dropped, containers are compressed recursively. -/
def compressItems : List Doc → List Doc
  | [] => []
  | undef :: r => compressItems r
  | d :: r => compress d :: compressItems r
/-- removed items are dropped (when there are none the table is kept, which is the same list). -/
def compressSlots : List Slot → List Slot
  | [] => []
  | none :: r => compressSlots r
  | some (k, v) :: r => some (k, compress v) :: compressSlots r
end

/-! ### Subscripts with auto-vivification -/

def asObj : Doc → Nat × List Slot
  | obj c s => (c, s)
  | _ => (0, [])

def asArr : Doc → List Doc
  | arr items => items
  | _ => []

/-- `operator[](key)` / `Get` / `Insert` (Value.hpp:543-639): anything that is not an object is
reset to an empty object first; then `HArray::Get`. `f` is what the caller does with the reference. -/
def updKey (k : Key) (f : Doc → Doc) (d : Doc) : Doc :=
  let o := asObj d
  let e := objExpand o.1 o.2
  obj e.1 (slotUpd k f e.2)

def setAtIdx (i : Nat) (f : Doc → Doc) : List Doc → List Doc
  | [] => []
  | d :: r => match i with
    | 0 => f d :: r
    | i + 1 => d :: setAtIdx i f r

/-- `operator[](SizeT index)` (Value.hpp:579-606). -/
def updIdx (i : Nat) (f : Doc → Doc) (d : Doc) : Doc :=
  match d with
  | arr items =>
      if i < items.length then arr (setAtIdx i f items)
      else arr (items ++ List.replicate (i - items.length) undef ++ [f undef])
  | obj c s =>
      match s[i]? with
      | some (some (k, v)) => obj c (s.set i (some (k, f v)))
      | _ => arr (List.replicate i undef ++ [f undef])
  | _ => arr (List.replicate i undef ++ [f undef])

inductive Sel where
  | key (k : Key)
  | idx (i : Nat)
  deriving Repr, Inhabited

/-- A chain of subscripts `v[s1][s2]...` followed by an action on the reference. -/
def updPath : List Sel → (Doc → Doc) → Doc → Doc
  | [], f, d => f d
  | Sel.key k :: p, f, d => updKey k (updPath p f) d
  | Sel.idx i :: p, f, d => updIdx i (updPath p f) d

/-! ### Appends, merges, removals -/

/-- `array_ += item` after "if not an array: reset, become an array" (Value.hpp:419-425 …). -/
def pushDoc (x : Doc) (d : Doc) : Doc := arr (asArr d ++ [x])

/-- `operator+=(Value &&)` / `operator+=(const Value &)` (Value.hpp:414-439). Returns the new target;
the moved-from source becomes `undef` in both branches of the moving overload. -/
def addValue (cp : Doc → Doc) (x : Doc) (d : Doc) : Doc :=
  match d, x with
  | obj c s, obj _ xs => let m := objMerge cp c s xs; obj m.1 m.2
  | _, _ => pushDoc (cp x) d

/-- `operator+=(ObjectT &&)` (Value.hpp:454-465). -/
def addObj (xc : Nat) (xs : List Slot) (d : Doc) : Doc :=
  match d with
  | obj c s => let m := objMerge id c s xs; obj m.1 m.2
  | _ => pushDoc (obj xc xs) d

/-- `operator+=(ArrayT &&)` (Value.hpp:471-482): a non-empty array is concatenated, an empty one is
appended as an element. -/
def addArr (xs : List Doc) (d : Doc) : Doc :=
  match xs with
  | [] => pushDoc (arr []) d
  | _ => arr (asArr d ++ xs)

def dropUndef : List Doc → List Doc
  | [] => []
  | undef :: r => dropUndef r
  | d :: r => d :: dropUndef r

def mapDocs (f : Doc → Doc) : List Doc → List Doc
  | [] => []
  | d :: r => f d :: mapDocs f r

/-- `Merge` (Value.hpp:876-918): target after the call. -/
def mergeInto (cp : Doc → Doc) (x : Doc) (d : Doc) : Doc :=
  let d1 := match d with
    | undef => arr []
    | _ => d
  match d1, x with
  | arr items, arr xs => arr (items ++ mapDocs cp (dropUndef xs))
  | obj c s, obj _ xs => let m := objMerge cp c s xs; obj m.1 m.2
  | _, _ => d1

/-- `Remove(key)` (Value.hpp:1753-1765). -/
def removeKey (k : Key) : Doc → Doc
  | obj c s => obj c (slotRemove k s)
  | d => d

/-- `RemoveIndex` (Value.hpp:1767-1773, HashTable.hpp:193-201). -/
def removeIdx (i : Nat) : Doc → Doc
  | obj c s =>
      match s[i]? with
      | some (some _) => obj c (s.set i none)
      | _ => obj c s
  | arr items => if i < items.length then arr (setAtIdx i (fun _ => undef) items) else arr items
  | d => d

/-- `reset()` without a type change (what `SetPointerToValue(nullptr)` does, Value.hpp:251-258,
2169-2190).  For a `ptr` it would leave a null ValuePtr: excluded by the callers. -/
def resetPayload : Doc → Doc
  | obj _ _ => obj 0 []
  | arr _ => arr []
  | str _ => str []
  | nat _ => nat 0
  | int _ => int 0
  | real _ => real 0
  | d => d

/-- `operator=(ValueType)` (Value.hpp:203-207, after repair d3c7090): `reset()` then the tag, i.e. the
value is replaced by the empty value of that kind whatever it held (before the repair only the tag was
rewritten and the old payload was reinterpreted).  `none` for ValuePtr (it would be a null pointer) and
for numbers that are not a `ValueType`: not driven. -/
def assignType (k : Nat) (_d : Doc) : Option Doc :=
  match k with
  | 0 => some undef | 2 => some (obj 0 []) | 3 => some (arr []) | 4 => some (str [])
  | 5 => some (nat 0) | 6 => some (int 0) | 7 => some (real 0) | 8 => some tru | 9 => some fls
  | 10 => some null
  | _ => none

/-- `Value{ValueType::Object, n}` / `Value{ValueType::Array, n}` (Value.hpp:117-134): an empty container with
room reserved (`HashTable::Reserve` → `allocate(n)`; the array's capacity is not observable here). -/
def reservedDoc (k n : Nat) : Option Doc :=
  match k with
  | 2 => some (obj (if n = 0 then 0 else allocCap n) [])
  | 3 => some (arr [])
  | _ => none

/-- `GetObject()->Clear()` / `GetArray()->Clear()` (HashTable.hpp:250-259, Array.hpp:194-198): every item is
disposed, the capacity stays. -/
def clearDoc : Doc → Doc
  | obj c _ => obj c []
  | arr _ => arr []
  | d => d

/-- Writing through a reference that a chain of subscripts has already produced (the members along the
path exist): no table growth, nothing is vivified. -/
def refUpd : List Sel → (Doc → Doc) → Doc → Doc
  | [], f, d => f d
  | Sel.key k :: p, f, obj c s => obj c (slotUpd k (refUpd p f) s)
  | Sel.idx i :: p, f, arr items => arr (setAtIdx i (refUpd p f) items)
  | Sel.idx i :: p, f, obj c s =>
      match s[i]? with
      | some (some (k, v)) => obj c (s.set i (some (k, refUpd p f v)))
      | _ => obj c s
  | _ :: _, _, d => d

/-- a container after its content was moved out (`HashTable`/`Array`/`String` move construction). -/
def movedOut : Doc → Doc
  | obj _ _ => obj 0 []
  | arr _ => arr []
  | str _ => str []
  | d => d

/-- kind of a container operand: 2 Object, 3 Array, 4 String (the `ValueType` numbers). -/
def isContainerKind (k : Nat) (d : Doc) : Bool :=
  match k, d with
  | 2, obj _ _ => true
  | 3, arr _ => true
  | 4, str _ => true
  | _, _ => false

/-! ### Pointer resolution -/

def envGet (env : Env) (r : Nat) : Doc :=
  match env[r]? with
  | some d => d
  | none => undef

def derefF (env : Env) : Nat → Doc → Doc
  | 0, d => d
  | f + 1, ptr r => derefF env f (envGet env r)
  | _ + 1, d => d

/-- Follow a chain of pointers (`case ValuePtr: return value_->F(...)`). -/
def deref (env : Env) (d : Doc) : Doc := derefF env (env.length + 1) d

/-! ### Readers -/

/-- `IsUndefined()` (Value.hpp:938-950): follows the whole pointer chain. -/
def isUndefinedP (env : Env) (d : Doc) : Bool := (deref env d).isUndef

/-- `IsObject()`, `IsArray()` … `IsNull()` (Value.hpp:952-1076, after the repair "typed tests follow every
pointer hop": `return value_->IsX();`; before it they looked through exactly one hop). `k` is the kind number. -/
def isKind1 (env : Env) (k : Nat) (d : Doc) : Bool := (deref env d).kindNum == k

/-- `GetNumberType()` (1082-1108): 0 NaN, 1 Real, 2 Natural, 3 Integer. -/
def numberType (env : Env) (d : Doc) : Nat :=
  match deref env d with
  | nat _ => 2 | int _ => 3 | real _ => 1 | _ => 0

def isNumber (env : Env) (d : Doc) : Bool := numberType env d != 0

/-- `Size()` (1110-1126): removed items and undefined elements are counted. -/
def size (env : Env) (d : Doc) : Nat :=
  match deref env d with
  | obj _ s => s.length
  | arr items => items.length
  | _ => 0

def nonUndef (d : Doc) : Option Doc := if d.isUndef then none else some d

/-- the index a key denotes for `GetValue(key, length)` on an array (Value.hpp, after the repair
"array key must be a plain decimal index"): 1 to 10 decimal digits (leading zeros allowed); anything else —
the empty key, a sign, a space, a letter, `:` or `/`, eleven digits, units outside `0`..`9` of any width — denotes
no element.  (Before the repair the key went unvalidated through `FastStringToNumber`: `""` and `"4294967296"`
read element 0, `":"` element 10.) -/
def arrayKeyIndex (k : List Nat) : Option Nat :=
  if k.length = 0 ∨ k.length > 10 then none
  else if k.all (fun c => decide (48 ≤ c ∧ c ≤ 57)) then some (k.foldl (fun n c => n * 10 + (c - 48)) 0)
  else none

/-- `GetValue(index)` on a value that is not a pointer (1128-1159). -/
def childIdx (d : Doc) (i : Nat) : Option Doc :=
  match d with
  | obj _ s =>
      match s[i]? with
      | some (some (_, v)) => nonUndef v
      | _ => none
  | arr items =>
      match items[i]? with
      | some v => nonUndef v
      | none => none
  | _ => none

/-- `GetValue(key, length)` on a value that is not a pointer (1161-1195): an array reads the key as
a decimal index (`arrayKeyIndex`). -/
def childKey (d : Doc) (k : Key) : Option Doc :=
  match d with
  | obj _ s =>
      match slotFind k s with
      | some v => nonUndef v
      | none => none
  | arr items =>
      match arrayKeyIndex k with
      | some i =>
        match items[i]? with
        | some v => nonUndef v
        | none => none
      | none => none
  | _ => none

def getValueIdx (env : Env) (d : Doc) (i : Nat) : Option Doc := childIdx (deref env d) i
def getValueKey (env : Env) (d : Doc) (k : Key) : Option Doc := childKey (deref env d) k

/-- `GetKey(index)` (1297-1309, HashTable.hpp:125-133). -/
def getKey (env : Env) (d : Doc) (i : Nat) : Option Key :=
  match deref env d with
  | obj _ s =>
      match s[i]? with
      | some (some (k, _)) => some k
      | _ => none
  | _ => none

/-- `CopyKeyByIndexTo` (Value.hpp:1590-1609): `none` = `false`; on an object the answer is `true` and the key of a
live slot is appended (nothing for a removed slot or an index past the end). -/
def copyKeyByIndexTo (env : Env) (d : Doc) (i : Nat) : Option (List Nat) :=
  match deref env d with
  | obj _ s =>
      match s[i]? with
      | some (some (k, _)) => some k
      | _ => some []
  | _ => none

/-- `SetValueAndKey` / `SetValueKeyLength` (1433-1467): value and key of a slot, absent when the slot is
removed or its value undefined. -/
def getValueAndKey (env : Env) (d : Doc) (i : Nat) : Option (Key × Doc) :=
  match deref env d with
  | obj _ s =>
      match s[i]? with
      | some (some (k, v)) => if v.isUndef then none else some (k, v)
      | _ => none
  | _ => none

/-- `GetString()` const / `StringStorage()` / `Length()` / `GetStringView()` (1355-1417). -/
def getString (env : Env) (d : Doc) : Option (List Nat) :=
  match deref env d with
  | str s => some s
  | _ => none

def trueText : List Nat := [116, 114, 117, 101]
def falseText : List Nat := [102, 97, 108, 115, 101]
def nullText : List Nat := [110, 117, 108, 108]

/-- `SetCharAndLength` (1470-1505). -/
def setCharAndLength (env : Env) (d : Doc) : Option (List Nat) :=
  match deref env d with
  | str s => some s
  | tru => some trueText
  | fls => some falseText
  | null => some nullText
  | _ => none

def natText (n : Nat) : List Nat := (Nat.toDigits 10 n).map Char.toNat

def intText (i : Int) : List Nat :=
  if i < 0 then 45 :: natText i.natAbs else natText i.toNat

/-- `CopyValueTo` (1510-1565) with the default format; `fmtReal` is `Digit::NumberToString(double)`. -/
def copyValueTo (fmtReal : Nat → List Nat) (env : Env) (d : Doc) : Option (List Nat) :=
  match deref env d with
  | str s => some s
  | nat n => some (natText n)
  | int i => some (intText i)
  | real b => some (fmtReal b)
  | tru => some trueText
  | fls => some falseText
  | null => some nullText
  | _ => none

/-! ### Numbers -/

inductive Num where
  | nan
  | nat (n : Nat)
  | int (i : Int)
  | real (bits : Nat)
  deriving Repr, Inhabited

/-- `SetNumber` (1652-1700). `strToNum s` stands for `Digit::StringToNumber` on the whole string
followed by the `offset == Length()` test. -/
def setNumber (strToNum : List Nat → Num) (env : Env) (d : Doc) : Num :=
  match deref env d with
  | Doc.nat n => Num.nat n
  | Doc.int i => Num.int i
  | Doc.real b => Num.real b
  | tru => Num.nat 1
  | fls => Num.nat 0
  | null => Num.nat 0
  | str s => strToNum s
  | _ => Num.nan

def two64 : Nat := 2 ^ 64
def two63 : Nat := 2 ^ 63

/-- two's complement reinterpretation `Integer -> Natural`. -/
def intToU64 (i : Int) : Nat := (i % (two64 : Int)).toNat

/-- two's complement reinterpretation `Natural -> Integer`. -/
def u64ToInt (n : Nat) : Int := if n < two63 then (n : Int) else (n : Int) - (two64 : Int)

/-- `SizeT64I(double)`: truncation toward zero; `none` when the conversion is undefined (NaN, infinity,
out of range). -/
def realToInt64 (bits : Nat) : Option Int :=
  let sign := bits / two63
  let e := (bits / 2 ^ 52) % 2048
  let m := bits % 2 ^ 52
  if e = 2047 then none else
  let mant := if e = 0 then m else m + 2 ^ 52
  let ee := if e = 0 then 1 else e
  let mag := if ee ≥ 1075 then mant * 2 ^ (ee - 1075) else mant / 2 ^ (1075 - ee)
  if sign = 0 then (if mag < two63 then some (mag : Int) else none)
  else (if mag ≤ two63 then some (-(mag : Int)) else none)

/-- `double(SizeT64)`: round to nearest, ties to even. -/
def natToReal (n : Nat) : Nat :=
  if n = 0 then 0 else
  let len := Nat.log2 n + 1
  if len ≤ 53 then (len - 1 + 1023) * 2 ^ 52 + (n * 2 ^ (53 - len) - 2 ^ 52)
  else
    let s := len - 53
    let q := n / 2 ^ s
    let rem := n % 2 ^ s
    let half := 2 ^ (s - 1)
    let q' := if rem > half ∨ (rem = half ∧ q % 2 = 1) then q + 1 else q
    if q' = 2 ^ 53 then (len + 1023) * 2 ^ 52 else (len - 1 + 1023) * 2 ^ 52 + (q' - 2 ^ 52)

def intToReal (i : Int) : Nat := if i < 0 then two63 + natToReal i.natAbs else natToReal i.toNat

/-- `GetUInt64` (1588-1605). -/
def getUInt64 (strToNum : List Nat → Num) (env : Env) (d : Doc) : Option Nat :=
  match setNumber strToNum env d with
  | Num.nat n => some n
  | Num.int i => some (intToU64 i)
  | Num.real b => (realToInt64 b).map intToU64
  | Num.nan => some 0

/-- `GetInt64` (1607-1624). -/
def getInt64 (strToNum : List Nat → Num) (env : Env) (d : Doc) : Option Int :=
  match setNumber strToNum env d with
  | Num.nat n => some (u64ToInt n)
  | Num.int i => some i
  | Num.real b => realToInt64 b
  | Num.nan => some 0

/-- `GetDouble` / `GetNumber` (1626-1650), as a bit pattern. -/
def getDouble (strToNum : List Nat → Num) (env : Env) (d : Doc) : Nat :=
  match setNumber strToNum env d with
  | Num.nat n => natToReal n
  | Num.int i => intToReal i
  | Num.real b => b
  | Num.nan => 0

def realIsNaN (b : Nat) : Bool := (b / 2 ^ 52) % 2048 == 2047 && b % 2 ^ 52 != 0

/-- `Real > 0`. -/
def realGtZero (b : Nat) : Bool := b / two63 == 0 && b != 0 && !realIsNaN b

/-- IEEE `==`. -/
def realEq (a b : Nat) : Bool :=
  if realIsNaN a || realIsNaN b then false
  else if a % two63 == 0 && b % two63 == 0 then true
  else a == b

/-- `SetBool` (1702-1751). -/
def setBool (env : Env) (d : Doc) : Option Bool :=
  match deref env d with
  | tru => some true
  | fls => some false
  | null => some false
  | Doc.nat n => some (n > 0)
  | Doc.int i => some (i > 0)
  | Doc.real b => some (realGtZero b)
  | str s => if s = trueText then some true else if s = falseText then some false else none
  | _ => none

/-! ### `operator==` (Value.hpp:846-895, after the cross-kind repair 0c82573 and the right-hand pointer
repair 73c896c: a pointer on either side is dereferenced) -/

def eqF (env : Env) : Nat → Doc → Doc → Bool
  | 0, _, _ => false
  | f + 1, a, b =>
    if a.kindNum = b.kindNum then
      match a, b with
      | obj _ s, obj _ t => s.length == t.length
      | arr s, arr t => s.length == t.length
      | str s, str t => s == t
      | Doc.nat m, Doc.nat n => m == n
      | Doc.int m, Doc.int n => m == n
      | Doc.real m, Doc.real n => realEq m n
      | ptr r, ptr q => eqF env f (envGet env r) (envGet env q)
      | _, _ => true
    else
      match a with
      | ptr r => eqF env f (envGet env r) b
      | _ =>
        match b with
        | ptr q => eqF env f a (envGet env q)
        | _ => false

def valEq (env : Env) (a b : Doc) : Bool := eqF env (2 * env.length + 2) a b

/-! ### Stringify (Value.hpp:1929-2075, JSONUtils.hpp:204-250) -/

/-- `JSONUtils::Escape` (JSONUtils.hpp:203-262): short forms, `\\u00XX` for the other units below 0x20. -/
def escapeJson : List Nat → List Nat
  | [] => []
  | c :: r =>
    if c = 34 ∨ c = 92 ∨ c = 47 then 92 :: c :: escapeJson r
    else if c = 8 then 92 :: 98 :: escapeJson r
    else if c = 9 then 92 :: 116 :: escapeJson r
    else if c = 10 then 92 :: 110 :: escapeJson r
    else if c = 12 then 92 :: 102 :: escapeJson r
    else if c = 13 then 92 :: 114 :: escapeJson r
    else if c < 32 then
      92 :: 117 :: 48 :: 48 :: (48 + c / 16) :: (if c % 16 < 10 then 48 + c % 16 else 97 + (c % 16 - 10)) :: escapeJson r
    else c :: escapeJson r

/-- The "replace the trailing comma by the closer, else append the closer" step
(Value.hpp:1983-1989, 2008-2014).  `body` is everything written after the opener; when it is empty
the last unit of the stream is the opener itself. -/
def closeWith (opener closer : Nat) (body : List Nat) : List Nat :=
  match body.getLast? with
  | some 44 => opener :: (body.dropLast ++ [closer])
  | _ => opener :: (body ++ [closer])

mutual
/-- `stringifyValue`; `onPtr r` is the text produced for the pointee of `ptr r`, `undefPtr r` says
that the chain starting at `ptr r` ends in an undefined value (`IsUndefined()`). -/
def sValue (fmtReal : Nat → List Nat) (onPtr : Nat → List Nat) (undefPtr : Nat → Bool) : Doc → List Nat
  | obj _ slots => closeWith 123 125 (sSlots fmtReal onPtr undefPtr slots)
  | arr items => closeWith 91 93 (sItems fmtReal onPtr undefPtr items)
  | str s => 34 :: (escapeJson s ++ [34])
  | Doc.nat n => natText n
  | Doc.int i => intText i
  | Doc.real b => fmtReal b
  | fls => falseText
  | tru => trueText
  | null => nullText
  | ptr r => onPtr r
  | undef => []
/-- loop of `stringifyArray`: elements for which `IsUndefined()` holds are skipped. -/
def sItems (fmtReal : Nat → List Nat) (onPtr : Nat → List Nat) (undefPtr : Nat → Bool) : List Doc → List Nat
  | [] => []
  | undef :: r => sItems fmtReal onPtr undefPtr r
  | ptr q :: r =>
      if undefPtr q then sItems fmtReal onPtr undefPtr r
      else onPtr q ++ 44 :: sItems fmtReal onPtr undefPtr r
  | d :: r => sValue fmtReal onPtr undefPtr d ++ 44 :: sItems fmtReal onPtr undefPtr r
/-- loop of `stringifyObject`: removed items and members for which `IsUndefined()` holds are skipped. -/
def sSlots (fmtReal : Nat → List Nat) (onPtr : Nat → List Nat) (undefPtr : Nat → Bool) : List Slot → List Nat
  | [] => []
  | none :: r => sSlots fmtReal onPtr undefPtr r
  | some (_, undef) :: r => sSlots fmtReal onPtr undefPtr r
  | some (k, ptr q) :: r =>
      if undefPtr q then sSlots fmtReal onPtr undefPtr r
      else 34 :: (escapeJson k ++ 34 :: 58 :: (onPtr q ++ 44 :: sSlots fmtReal onPtr undefPtr r))
  | some (k, v) :: r =>
      34 :: (escapeJson k ++ 34 :: 58 :: (sValue fmtReal onPtr undefPtr v ++ 44 :: sSlots fmtReal onPtr undefPtr r))
end

/-- `stringifyValue` with pointers followed at most `f` times. -/
def sValueF (fmtReal : Nat → List Nat) (env : Env) : Nat → Doc → List Nat
  | 0 => sValue fmtReal (fun _ => []) (fun r => isUndefinedP env (ptr r))
  | f + 1 => sValue fmtReal (fun r => sValueF fmtReal env f (envGet env r)) (fun r => isUndefinedP env (ptr r))

/-- `Stringify()` (1929-1959): at top level only an object or an array (possibly behind pointers)
prints anything. -/
def stringify (fmtReal : Nat → List Nat) (env : Env) (d : Doc) : List Nat :=
  match deref env d with
  | obj c s => sValueF fmtReal env (env.length + 1) (obj c s)
  | arr items => sValueF fmtReal env (env.length + 1) (arr items)
  | _ => []

/-! ### Navigation without vivification (what a caller reaches with `GetValue` chains, not following
pointers) -/

def childAt (d : Doc) : Sel → Option Doc
  | Sel.key k => childKey d k
  | Sel.idx i => childIdx d i

def getAt : Doc → List Sel → Option Doc
  | d, [] => some d
  | d, s :: p =>
    match childAt d s with
    | some c => getAt c p
    | none => none

def slotSetVal (k : Key) (x : Doc) : List Slot → List Slot
  | [] => []
  | none :: r => none :: slotSetVal k x r
  | some (k', v) :: r => if k' = k then some (k', x) :: r else some (k', v) :: slotSetVal k x r

/-- write through the pointer returned by `GetValue(sel)`. -/
def setChild (d : Doc) (s : Sel) (x : Doc) : Doc :=
  match d, s with
  | obj c sl, Sel.key k => obj c (slotSetVal k x sl)
  | obj c sl, Sel.idx i =>
      match sl[i]? with
      | some (some (k, _)) => obj c (sl.set i (some (k, x)))
      | _ => d
  | arr items, Sel.key k =>
      match arrayKeyIndex k with
      | some i => arr (setAtIdx i (fun _ => x) items)
      | none => d
  | arr items, Sel.idx i => arr (setAtIdx i (fun _ => x) items)
  | _, _ => d

def modAt : Doc → List Sel → (Doc → Doc) → Doc
  | d, [], f => f d
  | d, s :: p, f =>
    match childAt d s with
    | some c => setChild d s (modAt c p f)
    | none => d

end Qentem.Value
