import Qentem.Generated.Expr
/-!
# C04 — model of the expression scanner and evaluator (`{math:…}`, `case="…"`)

Transcribed code (all in `/repo/Include`):

* `QExpression.hpp:34-64`   enums `ExpressionType`, `QOperation`  → `Op`, `Op.rank` (values from
  `Qentem.Generated.Expr`, re-extracted from the headers on every run; rank = enum value).
* `QExpression.hpp:162-905` typed arithmetic (`+= -= *= /= % ^= &= |=`, comparisons, `PowerOf`)
  → `Num.add … Num.cmp`, `powerOf`, `Num.exp`.  `QNumber64` is a 64-bit union: the model keeps the
  bit pattern as a `Nat < 2^64` for `Natural` **and** `Integer` (two's complement, `toInt`/`ofInt`
  written out) and a value of the real carrier `R` for `Real`.  Wrap-around is explicit (`wrap`).
* `Template.hpp:1412-1444`  `evaluate`            → `evaluate`/`loop`   (cursor `expr` = the pair
  *operator following the last consumed item* + *remaining items*; the `QExpression &left`
  out-parameter is the returned value; `bool` result = `Option`).
* `Template.hpp:1446-1504`  `GetExpressionValue`  → `getVal`.
* `Template.hpp:1506-1626`  `evaluateExpression`  → `applyOp` (`applyChk` is the same with the one
  trapping machine operation, signed `%`, as a *checked* operation).
* `Template.hpp:1628-1804`  `isEqual`             → `isEqual`.
* `Template.hpp:1806-2086`  `parseExpressions`, `parseValue`, `getOperation`, `isExpression`
  → same names, on `content : List Nat` with checked reads (`rd`), offsets as `Nat`.
* `Value.hpp:1652-1697` `SetNumber`, `1082` `GetNumberType`, `1471` `SetCharAndLength` → `VarVal.*`.

Parameters (other areas model them): `readNum : List Nat → Option (Num R)` is
`Digit::StringToNumber` restricted to "whole slice consumed and kind ≠ NotANumber";
`lookup : VarRef → Option (VarVal R)` is `getValue` (template variable resolution).

The real carrier `R` is a parameter (`RealLike`): `Rat` in proofs (exact arithmetic), `Float` in the
driver.  Nothing here is proved; see `Qentem/Proofs/Expr*.lean` and `Qentem/Props/C04.lean`.

The flag `chk` selects the evaluator as repaired in /repo a8ed3a9 (`true`; the loop re-checks
`previous_oper < expr->Operation` after the recursive branch as it always did after the direct
branch) or as it was before (`false`, kept only for the witness in `Props/C04.lean`).
-/
namespace Qentem.Expr
open Qentem.Generated.Expr

/-! ## 64-bit words -/

abbrev W64 : Nat := 18446744073709551616   -- 2^64
abbrev H64 : Nat := 9223372036854775808    -- 2^63

/-- keep the low 64 bits -/
def wrap (n : Nat) : Nat := n % W64
/-- two's-complement reading of a 64-bit pattern (`Value.Number.Integer`) -/
def toInt (b : Nat) : Int := if b < H64 then (b : Int) else (b : Int) - (W64 : Int)
/-- the 64-bit pattern of a signed value (wraps) -/
def ofInt (i : Int) : Nat := (i % (W64 : Int)).toNat
/-- `-x` on a 64-bit pattern (wraps: `-MIN = MIN`) -/
def negBits (b : Nat) : Nat := wrap (W64 - wrap b)

/-! ## The real carrier -/

/-- What the code needs from `double`.  `truncBits r` is the bit pattern of `SizeT64I(r)`. -/
class RealLike (R : Type) where
  fromNat : Nat → R
  fromInt : Int → R
  add : R → R → R
  sub : R → R → R
  mul : R → R → R
  div : R → R → R
  neg : R → R
  lt : R → R → Bool
  le : R → R → Bool
  eq : R → R → Bool
  truncBits : R → Nat

instance : RealLike Rat where
  fromNat n := (n : Rat)
  fromInt i := (i : Rat)
  add := (· + ·)
  sub := (· - ·)
  mul := (· * ·)
  div := (· / ·)
  neg := (- ·)
  lt a b := decide (a < b)
  le a b := decide (a ≤ b)
  eq a b := decide (a = b)
  truncBits r := ofInt (Int.tdiv r.num r.den)

/-- x86-64 `cvttsd2si`: out of range or NaN gives 0x8000000000000000. -/
def floatTruncBits (x : Float) : Nat :=
  if x.isNaN || x ≥ 9223372036854775808.0 || x < -9223372036854775808.0 then H64
  else (x.toInt64).toUInt64.toNat

instance : RealLike Float where
  fromNat n := n.toUInt64.toFloat
  fromInt i := (Int64.ofInt i).toFloat
  add := (· + ·)
  sub := (· - ·)
  mul := (· * ·)
  div := (· / ·)
  neg := (- ·)
  lt a b := a < b
  le a b := a ≤ b
  eq a b := a == b
  truncBits := floatTruncBits

/-! ## Operators (`QOperation`) -/

inductive Op where
  | noOp | or | and | equal | notEqual | greaterOrEqual | lessOrEqual | greater | less
  | bitOr | bitAnd | add | sub | mul | div | rem | exp | error
  deriving DecidableEq, Repr, Inhabited

/-- numeric value of the enumerator = precedence rank used by `evaluate` (T1: generated). -/
def Op.rank : Op → Nat
  | .noOp => qopNoOp | .or => qopOr | .and => qopAnd | .equal => qopEqual
  | .notEqual => qopNotEqual | .greaterOrEqual => qopGreaterOrEqual
  | .lessOrEqual => qopLessOrEqual | .greater => qopGreater | .less => qopLess
  | .bitOr => qopBitwiseOr | .bitAnd => qopBitwiseAnd | .add => qopAddition
  | .sub => qopSubtraction | .mul => qopMultiplication | .div => qopDivision
  | .rem => qopRemainder | .exp => qopExponent | .error => qopError

def Op.isEq : Op → Bool
  | .equal => true | .notEqual => true | _ => false

/-! ## Numbers, operands, values -/

/-- `ExpressionType::{NaturalNumber, IntegerNumber, RealNumber}` + the `QNumber64` payload. -/
inductive Num (R : Type) where
  | nat (bits : Nat)
  | int (bits : Nat)
  | real (r : R)
  deriving Repr

/-- `Tags::VariableTag` -/
structure VarRef where
  off : Nat
  len : Nat
  idLen : Nat
  level : Nat
  deriving DecidableEq, Repr, Inhabited

/-- One entry of `QExpressions` without its operator. -/
inductive Operand (R : Type) where
  | num (n : Num R)
  | var (v : VarRef)
  | text (off len : Nat)
  | sub (items : List (Operand R × Op))

/-- `QExpression`: operand + the operator that FOLLOWS it (`NoOp` on the last one). -/
abbrev Item (R : Type) := Operand R × Op

/-- A `QExpression` used as an accumulator (`left`/`right`). -/
inductive Val (R : Type) where
  | num (n : Num R)
  | text (off len : Nat)
  | var (v : VarRef)

def Val.isText {R} : Val R → Bool
  | .text _ _ => true | _ => false

/-- What `getValue` found, as far as `SetNumber`/`GetNumberType`/`SetCharAndLength`/`IsString`
can tell (`other` = array, object, undefined). -/
inductive VarVal (R : Type) where
  | nat (bits : Nat) | int (bits : Nat) | real (r : R)
  | tru | fals | null
  | str (s : List Nat)
  | other

structure Env (R : Type) where
  content : List Nat
  lookup : VarRef → Option (VarVal R)
  readNum : List Nat → Option (Num R)

def trueStr : List Nat := [116, 114, 117, 101]
def falseStr : List Nat := [102, 97, 108, 115, 101]
def nullStr : List Nat := [110, 117, 108, 108]

section
variable {R : Type} [RealLike R]
open RealLike

/-- `Value::SetNumber` ≠ `NotANumber` -/
def VarVal.setNumber (env : Env R) : VarVal R → Option (Num R)
  | .nat b => some (.nat b) | .int b => some (.int b) | .real r => some (.real r)
  | .tru => some (.nat 1) | .fals => some (.nat 0) | .null => some (.nat 0)
  | .str s => env.readNum s
  | .other => none

/-- `Value::GetNumberType() != NotANumber` -/
def VarVal.isNumber : VarVal R → Bool
  | .nat _ => true | .int _ => true | .real _ => true | _ => false

/-- `Value::SetCharAndLength` -/
def VarVal.chars : VarVal R → Option (List Nat)
  | .str s => some s | .tru => some trueStr | .fals => some falseStr | .null => some nullStr
  | _ => none

/-- `val->IsString() && val->Length() != 0` -/
def VarVal.nonEmptyString : VarVal R → Bool
  | .str s => !s.isEmpty | _ => false

/-! ## Typed arithmetic (`QExpression.hpp`) -/

/-- `double(x)` of a non-real operand / identity on a real one -/
def Num.toReal : Num R → R
  | .nat a => fromNat a | .int a => fromInt (toInt a) | .real r => r

/-- the 64 bits read through `.Integer`/`.Natural`; a real is truncated (`SizeT64I(Real)`) -/
def Num.intBits : Num R → Nat
  | .nat a => a | .int a => a | .real r => truncBits r

def Num.isReal : Num R → Bool
  | .real _ => true | _ => false

/-- `operator+=` -/
def Num.add : Num R → Num R → Num R
  | .nat a, .nat b => .nat (wrap (a + b))
  | .nat a, .int b => .int (wrap (a + b))
  | .int a, .nat b => .int (wrap (a + b))
  | .int a, .int b => .int (wrap (a + b))
  | l, r => .real (RealLike.add l.toReal r.toReal)

/-- `operator-=` -/
def Num.sub : Num R → Num R → Num R
  | .nat a, .nat b => if a < b then .int (wrap (a + W64 - wrap b)) else .nat (wrap (a + W64 - wrap b))
  | .nat a, .int b => .int (wrap (a + W64 - wrap b))
  | .int a, .nat b => .int (wrap (a + W64 - wrap b))
  | .int a, .int b => .int (wrap (a + W64 - wrap b))
  | l, r => .real (RealLike.sub l.toReal r.toReal)

/-- `operator*=` -/
def Num.mul : Num R → Num R → Num R
  | .nat a, .nat b => .nat (wrap (a * b))
  | .nat a, .int b => .int (wrap (a * b))
  | .int a, .nat b => .int (wrap (a * b))
  | .int a, .int b => .int (wrap (a * b))
  | l, r => .real (RealLike.mul l.toReal r.toReal)

/-- `operator!=(0ULL)` — the guard of `/` -/
def Num.nonZero : Num R → Bool
  | .nat a => a != 0 | .int a => a != 0 | .real r => !(RealLike.eq r (fromNat 0))

/-- `operator/=` (always real) -/
def Num.div (l r : Num R) : Num R := .real (RealLike.div l.toReal r.toReal)

/-- `operator>(0U)` — truth -/
def Num.positive : Num R → Bool
  | .nat a => decide (0 < a) | .int a => decide (0 < toInt a) | .real r => RealLike.lt (fromNat 0) r

/-- `PowerOf` (square-and-multiply, wrapping); `fuel` bounds the halvings (64 suffice). -/
def powerOfF : Nat → Nat → Nat → Nat
  | 0, left, _ => left
  | f + 1, left, right =>
    if right > 1 then
      if right % 2 = 0 then
        let l := powerOfF f left (right / 2)
        wrap (l * l)
      else
        let l := powerOfF f left ((right - 1) / 2)
        wrap (wrap (l * l) * left)
    else left

def powerOf (left right : Nat) : Nat := powerOfF 65 left right

/-- sign and magnitude of one side of `^=`; `none` = "no power of fraction" -/
def Num.signMag : Num R → Option (Bool × Nat)
  | .nat a => some (false, a)
  | .int a => if toInt a < 0 then some (true, negBits a) else some (false, a)
  | .real x =>
    let neg := RealLike.lt x (fromNat 0)
    let ax := if neg then RealLike.neg x else x
    if RealLike.lt ax (fromNat 1) && RealLike.lt (fromNat 0) ax then none
    else some (neg, truncBits ax)

/-- `operator^=` -/
def Num.exp (l r : Num R) : Option (Num R) :=
  match l.signMag with
  | none => none
  | some (lneg, base) =>
    match r.signMag with
    | none => none
    | some (rneg, n) =>
      if base ≠ 0 then
        if n ≠ 0 then
          let p := powerOf base n
          if rneg then
            let v := RealLike.div (fromNat 1) (fromNat p)
            some (.real (if lneg then RealLike.neg v else v))
          else if lneg && n % 2 = 1 then some (.int (negBits p))
          else some (.nat p)
        else some (.nat 1)
      else some (.nat 0)

/-- `operator&=` / `operator|=` with `f` = and/or on the bit patterns -/
def Num.bitop (f : Nat → Nat → Nat) : Num R → Num R → Num R
  | .nat a, .nat b => .nat (f a b)
  | l, r => .int (f l.intBits r.intBits)

/-- the five comparison operators: `cI` on the signed readings, `cR` on reals -/
def Num.cmp (cI : Int → Int → Bool) (cR : R → R → Bool) : Num R → Num R → Bool
  | .real x, .real y => cR x y
  | .real x, r => cR x (fromInt (toInt r.intBits))
  | l, .real y => cR l.toReal y
  | l, r => cI (toInt l.intBits) (toInt r.intBits)

def Num.lt' (l r : Num R) : Bool := Num.cmp (fun a b => decide (a < b)) RealLike.lt l r
def Num.le' (l r : Num R) : Bool := Num.cmp (fun a b => decide (a ≤ b)) RealLike.le l r
def Num.gt' (l r : Num R) : Bool := Num.cmp (fun a b => decide (b < a)) (fun a b => RealLike.lt b a) l r
def Num.ge' (l r : Num R) : Bool := Num.cmp (fun a b => decide (b ≤ a)) (fun a b => RealLike.le b a) l r
def Num.eq' (l r : Num R) : Bool := Num.cmp (fun a b => decide (a = b)) RealLike.eq l r

def boolNum (b : Bool) : Num R := .nat (if b then 1 else 0)

/-! ### The one trapping machine operation: signed 64-bit `%` -/

inductive Fault where
  | divZero | sremOverflow | oobRead (i n : Nat) | fuel
  deriving Repr, DecidableEq

/-- `idiv`: traps on a zero divisor and on `MIN % -1`. -/
def sremChk (a d : Int) : Except Fault Int :=
  if d = 0 then .error .divZero
  else if a = -(H64 : Int) ∧ d = -1 then .error .sremOverflow
  else .ok (Int.tmod a d)

/-- `case QOperation::Remainder` + `operator%` with the guards of the code. -/
def Num.remChk (l r : Num R) : Except Fault (Option (Num R)) :=
  let d := wrap r.intBits
  if d = 0 then .ok none
  else if d = W64 - 1 then .ok (some (.int 0))
  else match sremChk (toInt (wrap l.intBits)) (toInt d) with
    | .ok q => .ok (some (.int (ofInt q)))
    | .error e => .error e

/-! ## `isEqual` -/

/-- one side of `isEqual` after the first two `switch`es -/
inductive EqSide (R : Type) where
  | number (n : Num R)                    -- `*_is_a_number`
  | chars (s : List Nat) (v : Option (VarVal R))  -- text to compare; `v` = the variable's value if any

def eqSide (env : Env R) : Val R → Option (EqSide R)
  | .num n => some (.number n)
  | .var v =>
    match env.lookup v with
    | none => none
    | some x =>
      if x.isNumber then (x.setNumber env).map .number
      else (x.chars).map (fun s => .chars s (some x))
  | .text off len => some (.chars ((env.content.drop off).take len) none)

/-- a non-number side when the other side is a number: `SetNumber` or fail -/
def EqSide.forceNumber (env : Env R) : EqSide R → Option (Num R)
  | .number n => some n
  | .chars _ (some x) => x.setNumber env
  | .chars _ none => none

def isEqual (env : Env R) (l r : Val R) : Option Bool :=
  match eqSide env l with
  | none => none
  | some ls =>
    match eqSide env r with
    | none => none
    | some rs =>
      match ls, rs with
      | .chars a _, .chars b _ => some (decide (a = b))
      | _, _ =>
        match ls.forceNumber env, rs.forceNumber env with
        | some a, some b => some (Num.eq' a b)
        | _, _ => none

/-! ## `evaluateExpression` -/

/-- numeric operators; `none` inside `.ok` = "no value" (`return false`) -/
def applyNumChk : Op → Num R → Num R → Except Fault (Option (Num R))
  | .exp, l, r => .ok (Num.exp l r)
  | .rem, l, r => Num.remChk l r
  | .mul, l, r => .ok (some (Num.mul l r))
  | .div, l, r => .ok (if r.nonZero then some (Num.div l r) else none)
  | .add, l, r => .ok (some (Num.add l r))
  | .sub, l, r => .ok (some (Num.sub l r))
  | .bitAnd, l, r => .ok (some (Num.bitop Nat.land l r))
  | .bitOr, l, r => .ok (some (Num.bitop Nat.lor l r))
  | .less, l, r => .ok (some (boolNum (Num.lt' l r)))
  | .lessOrEqual, l, r => .ok (some (boolNum (Num.le' l r)))
  | .greater, l, r => .ok (some (boolNum (Num.gt' l r)))
  | .greaterOrEqual, l, r => .ok (some (boolNum (Num.ge' l r)))
  | .and, l, r => .ok (some (boolNum (l.positive && r.positive)))
  | .or, l, r => .ok (some (boolNum (l.positive || r.positive)))
  | _, _, _ => .ok none

/-- `evaluateExpression`.  A text or unresolved-variable operand under an operator other than
`==`/`!=` is outside the modelled domain (the C++ then works on whatever bits the union holds):
the model answers "no value" and `Tree.textArith` (ExprSpec) flags such expressions. -/
def applyChk (env : Env R) : Op → Val R → Val R → Except Fault (Option (Val R))
  | .equal, l, r => .ok ((isEqual env l r).map (fun b => .num (boolNum b)))
  | .notEqual, l, r => .ok ((isEqual env l r).map (fun b => .num (boolNum (!b))))
  | op, .num l, .num r =>
    match applyNumChk op l r with
    | .ok x => .ok (x.map .num)
    | .error e => .error e
  | _, _, _ => .ok none

def applyOp (env : Env R) (op : Op) (l r : Val R) : Option (Val R) :=
  match applyChk env op l r with
  | .ok x => x
  | .error _ => none

/-! ## `GetExpressionValue`, `evaluate` -/

/-- the `Variable` case of `GetExpressionValue` -/
def getVar (env : Env R) (v : VarRef) (operation itemOp : Op) : Option (Val R) :=
  if operation.isEq then some (.var v)
  else
    let val := env.lookup v
    match val.bind (VarVal.setNumber env) with
    | some n => some (.num n)
    | none =>
      if operation = .noOp ∧ itemOp = .noOp then
        some (.num (boolNum (match val with | some x => x.nonEmptyString | none => false)))
      else none

abbrev Cursor (R : Type) := Val R × Op × List (Item R)

mutual
/-- `evaluate(left, expr, previous_oper)`; the list is `expr, expr+1, …`. -/
def evaluate (env : Env R) (chk : Bool) : Nat → Op → List (Item R) → Option (Cursor R)
  | 0, _, _ => none
  | _, _, [] => none
  | f + 1, prev, (x, o) :: rest =>
    match getVal env chk f x o o with
    | none => none
    | some left => loop env chk f prev left o rest

/-- the `while (expr->Operation != NoOp)` loop; `op = expr->Operation`, `rest = expr+1 …`. -/
def loop (env : Env R) (chk : Bool) : Nat → Op → Val R → Op → List (Item R) → Option (Cursor R)
  | 0, _, _, _, _ => none
  | f + 1, prev, left, op, rest =>
    if op = .noOp then
      if left.isText then none else some (left, op, rest)
    else
      match rest with
      | [] => none -- an operator after the last entry: the C++ would read past the array
      | (x, o') :: rest' =>
        if op.rank ≥ o'.rank then
          match getVal env chk f x op o' with
          | none => none
          | some right =>
            match applyOp env op left right with
            | none => none
            | some left' =>
              if prev.rank < o'.rank then loop env chk f prev left' o' rest'
              else some (left', o', rest')
        else
          match evaluate env chk f op ((x, o') :: rest') with
          | none => none
          | some (right, o'', rest'') =>
            match applyOp env op left right with
            | none => none
            | some left' =>
              if chk then
                if prev.rank < o''.rank then loop env chk f prev left' o'' rest''
                else some (left', o'', rest'')
              else loop env chk f prev left' o'' rest''

/-- `GetExpressionValue(result, expr, operation)`; `itemOp = expr->Operation`. -/
def getVal (env : Env R) (chk : Bool) : Nat → Operand R → Op → Op → Option (Val R)
  | 0, _, _, _ => none
  | f + 1, .sub items, _, _ =>
    match evaluate env chk f .noOp items with
    | none => none
    | some (v, _, _) => some v
  | _ + 1, .var v, operation, itemOp => getVar env v operation itemOp
  | _ + 1, .num n, _, _ => some (.num n)
  | _ + 1, .text off len, _, _ => some (.text off len)
end

mutual
def Operand.size : Operand R → Nat
  | .sub items => sizeItems items + 1
  | _ => 0
def sizeItems : List (Item R) → Nat
  | [] => 0
  | (x, _) :: rest => x.size + 1 + sizeItems rest
end

/-- enough fuel for every well-formed list (proved in `Proofs/ExprClimb.lean`) -/
def fuelFor (items : List (Item R)) : Nat := 2 * sizeItems items + 2

/-- `TemplateCore::Evaluate(number, exprs, value)` -/
def evaluateTop (env : Env R) (chk : Bool) (items : List (Item R)) : Option (Val R) :=
  (evaluate env chk (fuelFor items) .noOp items).map (·.1)

end

/-! ## Scanner (`parseExpressions` …) with checked reads -/

/-- character constants (T1: `Generated.Expr.W1`; `Props/C04.lean` proves the four widths agree) -/
abbrev cRem := W1.symRemainder
abbrev cMul := W1.symMultiple
abbrev cDiv := W1.symDivide
abbrev cAdd := W1.symAdd
abbrev cSub := W1.symSubtract
abbrev cEq := W1.symEqual
abbrev cNot := W1.symNot
abbrev cLess := W1.symLess
abbrev cGreater := W1.symGreater
abbrev cAnd := W1.symAnd
abbrev cOr := W1.symOr
abbrev cPOpen := W1.symParenStart
abbrev cPClose := W1.symParenEnd
abbrev cBOpen := W1.symBracketStart
abbrev cBClose := W1.symBracketEnd
abbrev cExp := W1.symExponent
abbrev cSpace := W1.symSpace

def rd (c : List Nat) (i : Nat) : Except Fault Nat :=
  match c[i]? with
  | some x => .ok x
  | none => .error (.oobRead i c.length)

/-- `isExpression(content, offset)`: looks backwards from `offset`. -/
def isExpression (c : List Nat) : Nat → Except Fault Bool
  | 0 => .ok false
  | off + 1 => do
    let ch ← rd c off
    if ch = cSpace then isExpression c off
    else if ch = cPClose ∨ ch = cBClose then .ok true
    else .ok (decide (W1.digitZero ≤ ch ∧ ch ≤ W1.digitNine))

/-- the inner `while` of the `(` case; returns the offset where it stops. -/
def skipParen (c : List Nat) (endO : Nat) : Nat → Nat → Nat → Except Fault Nat
  | 0, _, _ => .error .fuel
  | f + 1, off, skip =>
    if off < endO then do
      let ch ← rd c off
      if ch = cPClose then
        if skip = 0 then .ok off else skipParen c endO f (off + 1) (skip - 1)
      else if ch = cPOpen then skipParen c endO f (off + 1) (skip + 1)
      else skipParen c endO f (off + 1) skip
    else .ok off

/-- the `do … while` of the `{` case -/
def skipBracket (c : List Nat) (endO : Nat) : Nat → Nat → Except Fault Nat
  | 0, _ => .error .fuel
  | f + 1, off =>
    let off := off + 1
    if off < endO then do
      let ch ← rd c off
      if ch ≠ cBClose then skipBracket c endO f off else .ok off
    else .ok off

/-- the `switch (content[offset])` of `getOperation`, as a classification of the unit -/
inductive OpChar where
  | two (yes no : Op) (second : Nat)   -- `||` `&&` `>=` `<=` `!=` `==`: look at the next unit
  | sign (op : Op)                      -- `-` `+`: operator only after an operand
  | single (op : Op)                    -- `/` `*` `%` `^`
  | paren | bracket | other

/-- the `case` labels of that `switch` -/
def opTable : List (Nat × OpChar) :=
  [(cOr, .two .or .bitOr cOr), (cAnd, .two .and .bitAnd cAnd),
   (cGreater, .two .greaterOrEqual .greater cEq), (cLess, .two .lessOrEqual .less cEq),
   (cNot, .two .notEqual .error cEq), (cEq, .two .equal .error cEq),
   (cSub, .sign .sub), (cAdd, .sign .add),
   (cDiv, .single .div), (cMul, .single .mul), (cRem, .single .rem), (cExp, .single .exp),
   (cPOpen, .paren), (cBOpen, .bracket)]

def classify (ch : Nat) : OpChar :=
  match opTable.find? (fun p => p.1 == ch) with
  | some p => p.2
  | none => .other

/-- `getOperation(content, offset, end_offset)` → (operation, new offset) -/
def getOperation (c : List Nat) (endO : Nat) : Nat → Nat → Except Fault (Op × Nat)
  | 0, _ => .error .fuel
  | f + 1, off =>
    if off < endO then do
      let ch ← rd c off
      match classify ch with
      | .two yes no second => do
        let nx ← rd c (off + 1)
        .ok (if nx = second then yes else no, off)
      | .sign op => do
        let b ← isExpression c off
        if b then .ok (op, off) else getOperation c endO f (off + 1)
      | .single op => .ok (op, off)
      | .paren => do
        let off2 ← skipParen c endO (endO + 1) (off + 1) 0
        if off2 < endO then getOperation c endO f off2 else .ok (.error, off2)
      | .bracket => do
        let off2 ← skipBracket c endO (endO + 1) off
        if off2 < endO then getOperation c endO f off2 else .ok (.error, endO)
      | .other => getOperation c endO f (off + 1)
    else .ok (.noOp, off)

def isWs (ch : Nat) : Bool := ch = 32 || ch = 10 || ch = 9 || ch = 13

/-- `StringUtils::TrimLeft` -/
def trimLeft (c : List Nat) (endO : Nat) : Nat → Nat → Except Fault Nat
  | 0, off => .ok off
  | f + 1, off =>
    if off < endO then do
      let ch ← rd c off
      if isWs ch then trimLeft c endO f (off + 1) else .ok off
    else .ok off

/-- `StringUtils::TrimRight` -/
def trimRight (c : List Nat) (off : Nat) : Nat → Except Fault Nat
  | 0 => .ok 0
  | e + 1 =>
    if e + 1 > off then do
      let ch ← rd c e
      if isWs ch then trimRight c off e else .ok (e + 1)
    else .ok (e + 1)

/-- scanner parameters: number reader and `checkLoopVariable` (offset ↦ (IDLength, Level)) -/
structure ScanCfg (R : Type) where
  readNum : List Nat → Option (Num R)
  loopVar : Nat → Nat × Nat := fun _ => (0, 0)

section
variable {R : Type}

mutual
/-- `parseExpressions(content, offset, end_offset, loop_tag)`; `[]` = failure. -/
def parseExpressions (cfg : ScanCfg R) (c : List Nat) : Nat → Nat → Nat → Except Fault (List (Item R))
  | 0, _, _ => .error .fuel
  | f + 1, off, endO => parseLoop cfg c f endO off [] .noOp

/-- the `while (offset < end_offset)` loop of `parseExpressions` and the final test
`(offset > end_offset) && (last_oper == NoOp)` (the second conjunct: notes/fix-expr-scan-dangling-operator.diff) -/
def parseLoop (cfg : ScanCfg R) (c : List Nat) :
    Nat → Nat → Nat → List (Item R) → Op → Except Fault (List (Item R))
  | 0, _, _, _, _ => .error .fuel
  | f + 1, endO, off, exprs, lastOp =>
    if off < endO then do
      let (oper, opOff) ← getOperation c endO (2 * (endO - off) + 2) off
      if oper = .error then .ok []
      else
        match ← parseValue cfg c f exprs oper lastOp off opOff with
        | none => .ok []   -- `break` with offset ≤ end_offset
        | some exprs' =>
          let off' := opOff + 1 + (if oper.rank < Op.greater.rank then 1 else 0)
          parseLoop cfg c f endO off' exprs' oper
    else if off > endO ∧ lastOp = .noOp then .ok exprs else .ok []

/-- `parseValue`; `none` = `false`, `some l` = the new `exprs`. -/
def parseValue (cfg : ScanCfg R) (c : List Nat) :
    Nat → List (Item R) → Op → Op → Nat → Nat → Except Fault (Option (List (Item R)))
  | 0, _, _, _, _, _ => .error .fuel
  | f + 1, exprs, oper, lastOp, off0, end0 => do
    let off ← trimLeft c end0 (end0 - off0 + 1) off0
    let endO ← trimRight c off end0
    if off < endO then do
      let ch ← rd c off
      if ch = cPOpen then do
        let sub ← parseExpressions cfg c f (off + 1) (endO - 1)
        if lastOp ≠ oper ∨ oper ≠ .noOp then
          .ok (if sub.isEmpty then none else some (exprs ++ [(.sub sub, oper)]))
        else
          .ok (if sub.isEmpty then none else some sub)
      else if ch = cBOpen then
        if endO - off > W1.variableFullLength then do
          let e := endO - W1.inLineSuffixLength
          let last ← rd c e
          if last = W1.inLineLastChar then
            let o := off + W1.variablePrefixLength
            let (idLen, level) := cfg.loopVar o
            .ok (some (exprs ++ [(.var ⟨o, (e - o) % 2 ^ variableLengthBits, idLen, level⟩, oper)]))
          else .ok none
        else .ok none
      else
        match cfg.readNum ((c.drop off).take (endO - off)) with
        | some n => .ok (some (exprs ++ [(.num n, oper)]))
        | none =>
          if lastOp.isEq || oper.isEq then .ok (some (exprs ++ [(.text off (endO - off), oper)]))
          else .ok none
    else .ok none
end

/-- `TemplateCore::ParseExpressions(content, length)` -/
def parseTop (cfg : ScanCfg R) (c : List Nat) (off endO : Nat) : Except Fault (List (Item R)) :=
  parseExpressions cfg c (2 * (endO - off) + 4) off endO

end
end Qentem.Expr
