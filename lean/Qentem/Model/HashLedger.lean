import Qentem.Model.Ledger
import Qentem.Model.HashTable
/-
Allocation behaviour of `HashTable` / `HArray` / `HList` (C16 for the hash containers).

Every routine is transcribed once more, this time keeping only what decides *which blocks are
requested from and returned to the allocator, and in which order*: the capacity, the table block,
and per slot the key, the block its key owns and the block its value owns (if any).  Which branch
an operation takes (key present / absent, table full, ...) is a function of the slots alone - that
is the content of the C13 refinement theorem - so no buckets or links appear here.

Blocks.  `Memory::Allocate` / `Memory::Deallocate` are the only allocation sites of the library.
  table block   `allocate(n)`: `(sizeof(SizeT)+sizeof(HItem)) * capacity` bytes (`Cfg.itemSize`)
  key block     a `String<char>` key owns `length+1` bytes, also when empty (`copyString`)
  value block   for `HArray<String,String>` a value made by the harness owns `Cfg.valSize id` bytes;
                a default-constructed value owns nothing; a *copy* of it owns 1 byte
  `HList` has no values (`Cfg.hasValue = false`).
Ids are handed out by a counter (`next`), as the harness numbers allocations (harness/ledger.hpp).

Order of events inside one C++ statement (checked against the real trace by checks/_hash_ledger.py):
  `~HItem`            Value first, then Key (members are destroyed in reverse declaration order)
  `item->Clear()`     Key first, then Value (HArray.hpp:71-74)
  copy of an item     Key first, then Value
  `resize`            new block first, then the old one is released (HashTable.hpp:500-520)
  `String::operator=(const&)`  release the old storage, then allocate (String.hpp:88-95)
The calls whose temporaries matter are fixed by the `htled` runner of harness/hashtable_harness.cpp:
  I  `Key k(..); V v = make(id); h.Insert(Move(k), Move(v));`      G  `h.Get(ptr, len)`
  A  `V v = make(id); V &r = h.Get(ptr, len); r = Move(v);`        R  `h.Remove(ptr, len)`
  N  `Key from(..); Key to(..); h.Rename(from, Move(to));`         Y  `Table t(h); h = Move(t);`
  M  `Table m(Move(h)); h = Move(m);`   P/Q  `Table src; <inserts, removes>; h += src | Move(src);`
  W  `h += h`   and at the end of the line the table is destroyed.
-/
namespace Qentem.HashLedger
open Qentem.Ledger Qentem.HashTable

structure Blk where
  id   : Nat
  size : Nat

structure Slot where
  key : List Nat
  kb  : Blk
  vb  : Option Blk

structure Tab where
  cap   : Nat
  blk   : Option Blk
  slots : List (Option Slot)

structure Cfg where
  hasValue : Bool
  itemSize : Nat
  valSize  : Nat → Nat
  ord      : Nat → Nat

/-- events, table afterwards, next fresh id -/
abbrev Res := List Ev × Tab × Nat

def Tab.empty : Tab := ⟨0, none, []⟩

def allocB (b : Blk) : Ev := .alloc b.id b.size
def freeB (b : Blk) : Ev := .free b.id
def optFree (b : Option Blk) : List Ev := b.toList.map freeB

/-- `~HItem()`: Value, then Key. -/
def dtorSlot : Option Slot → List Ev
  | none => []
  | some s => optFree s.vb ++ [freeB s.kb]

/-- `item->Clear()`: Key, then Value. -/
def clearSlot (s : Slot) : List Ev := freeB s.kb :: optFree s.vb

/-- `Memory::Dispose(first, last)` over a range of slots. -/
def disposeAll (sl : List (Option Slot)) : List Ev := sl.flatMap dtorSlot

def compact (sl : List (Option Slot)) : List (Option Slot) := sl.filter Option.isSome

/-- The live slot holding `k`: its number and content. -/
def findSlot : List (Option Slot) → List Nat → Option (Nat × Slot)
  | [], _ => none
  | none :: t, k => (findSlot t k).map fun r => (r.1 + 1, r.2)
  | some s :: t, k => if s.key = k then some (0, s) else (findSlot t k).map fun r => (r.1 + 1, r.2)

/-- `resize(n)`: allocate the new block, move the live items, release the old block. -/
def realloc (cfg : Cfg) (t : Tab) (n next : Nat) : Res :=
  let nb : Blk := ⟨next, allocCap n * cfg.itemSize⟩
  (allocB nb :: optFree t.blk, ⟨allocCap n, some nb, compact t.slots⟩, next + 1)

def growIfFull (cfg : Cfg) (t : Tab) (next : Nat) : Res :=
  if t.slots.length = t.cap then realloc cfg t (((if t.cap = 0 then 1 else 0) + t.cap) * 2) next
  else ([], t, next)

/-- `Insert`. The key (and value) temporaries are created first; an existing entry gets the new
value (its old one is released) and the unused key temporary is released at the end of the scope. -/
def insert (cfg : Cfg) (t : Tab) (next : Nat) (k : List Nat) (vid : Nat) : Res :=
  let kb : Blk := ⟨next, k.length + 1⟩
  let vb : Option Blk := if cfg.hasValue then some ⟨next + 1, cfg.valSize vid⟩ else none
  let next1 := if cfg.hasValue then next + 2 else next + 1
  let ev0 := allocB kb :: vb.toList.map allocB
  let g := growIfFull cfg t next1
  match findSlot g.2.1.slots k with
  | some (i, old) =>
    (ev0 ++ g.1 ++ optFree old.vb ++ [freeB kb],
     { g.2.1 with slots := g.2.1.slots.set i (some { old with vb := vb }) }, g.2.2)
  | none => (ev0 ++ g.1, { g.2.1 with slots := g.2.1.slots ++ [some ⟨k, kb, vb⟩] }, g.2.2)

/-- `Get` / `operator[]`: a missing key is created with a default (block-less) value. -/
def get (cfg : Cfg) (t : Tab) (next : Nat) (k : List Nat) : Res :=
  let g := growIfFull cfg t next
  match findSlot g.2.1.slots k with
  | some _ => g
  | none =>
    let kb : Blk := ⟨g.2.2, k.length + 1⟩
    (g.1 ++ [allocB kb], { g.2.1 with slots := g.2.1.slots ++ [some ⟨k, kb, none⟩] }, g.2.2 + 1)

/-- `h[k] = v`. -/
def assign (cfg : Cfg) (t : Tab) (next : Nat) (k : List Nat) (vid : Nat) : Res :=
  let vb : Blk := ⟨next, cfg.valSize vid⟩
  let g := growIfFull cfg t (next + 1)
  match findSlot g.2.1.slots k with
  | some (i, old) =>
    (allocB vb :: g.1 ++ optFree old.vb,
     { g.2.1 with slots := g.2.1.slots.set i (some { old with vb := some vb }) }, g.2.2)
  | none =>
    let kb : Blk := ⟨g.2.2, k.length + 1⟩
    (allocB vb :: g.1 ++ [allocB kb],
     { g.2.1 with slots := g.2.1.slots ++ [some ⟨k, kb, some vb⟩] }, g.2.2 + 1)

def remove (t : Tab) (next : Nat) (k : List Nat) : Res :=
  match findSlot t.slots k with
  | some (i, s) => (clearSlot s, { t with slots := t.slots.set i none }, next)
  | none => ([], t, next)

def removeIdx (t : Tab) (next : Nat) (i : Nat) : Res :=
  match t.slots[i]? with
  | some (some s) => (clearSlot s, { t with slots := t.slots.set i none }, next)
  | _ => ([], t, next)

/-- `Rename(from, Move(to))` with both keys built by the caller. -/
def rename (t : Tab) (next : Nat) (a b : List Nat) : Res :=
  let ka : Blk := ⟨next, a.length + 1⟩
  let kn : Blk := ⟨next + 1, b.length + 1⟩
  match findSlot t.slots a, findSlot t.slots b with
  | some (i, s), none =>
    ([allocB ka, allocB kn, freeB s.kb, freeB ka],
     { t with slots := t.slots.set i (some { s with key := b, kb := kn }) }, next + 2)
  | _, _ => ([allocB ka, allocB kn, freeB kn, freeB ka], t, next + 2)

def reset (t : Tab) (next : Nat) : Res :=
  if t.cap ≠ 0 then (disposeAll t.slots ++ optFree t.blk, Tab.empty, next) else ([], t, next)

def reserve (cfg : Cfg) (t : Tab) (next : Nat) (n : Nat) : Res :=
  let r := reset t next
  if n ≠ 0 then
    let nb : Blk := ⟨next, allocCap n * cfg.itemSize⟩
    (r.1 ++ [allocB nb], ⟨allocCap n, some nb, r.2.1.slots⟩, next + 1)
  else r

def clear (t : Tab) (next : Nat) : Res :=
  if t.slots.length ≠ 0 then (disposeAll t.slots, { t with slots := [] }, next) else ([], t, next)

def resizeTo (cfg : Cfg) (t : Tab) (next : Nat) (n : Nat) : Res :=
  if n = 0 then reset t next
  else
    let r := realloc cfg { t with slots := t.slots.take n } n next
    (disposeAll (t.slots.drop n) ++ r.1, r.2.1, r.2.2)

def expect (cfg : Cfg) (t : Tab) (next : Nat) (count : Nat) : Res :=
  if count + t.slots.length > t.cap then realloc cfg t (count + t.slots.length) next else ([], t, next)

def compress (cfg : Cfg) (t : Tab) (next : Nat) : Res :=
  let live := (compact t.slots).length
  if live ≠ 0 then (if live < t.slots.length then realloc cfg t live next else ([], t, next))
  else reset t next

def slotKey : Option Slot → List Nat
  | some s => s.key
  | none => []

def slotCmp (ord : Nat → Nat) (ascend : Bool) (x p : Option Slot) : Bool :=
  if ascend then Hash.isLess ord (slotKey x) (slotKey p) false
  else Hash.isGreater ord (slotKey x) (slotKey p) false

/-- `Sort`: records are moved around, nothing is allocated or released. -/
def sort (cfg : Cfg) (t : Tab) (next : Nat) (ascend : Bool) : Res :=
  ([], { t with slots := (sortSeg (slotCmp cfg.ord ascend) (t.slots.length + 1) t.slots.toArray 0
          t.slots.length).toList }, next)

/-- Copies of the live slots of `copyTable` / copy-merge: key block, then value block. -/
def copySlots (cfg : Cfg) : List (Option Slot) → Nat → List Ev × List (Option Slot) × Nat
  | [], next => ([], [], next)
  | none :: rest, next => copySlots cfg rest next
  | some s :: rest, next =>
    let kb : Blk := ⟨next, s.key.length + 1⟩
    let vb : Option Blk := if cfg.hasValue then some ⟨next + 1, match s.vb with | some b => b.size | none => 1⟩ else none
    let next1 := if cfg.hasValue then next + 2 else next + 1
    let r := copySlots cfg rest next1
    (allocB kb :: vb.toList.map allocB ++ r.1, some ⟨s.key, kb, vb⟩ :: r.2.1, r.2.2)

/-- `Table t(h); h = Move(t);` -/
def copy (cfg : Cfg) (t : Tab) (next : Nat) : Res :=
  if t.slots.length ≠ 0 then
    let nb : Blk := ⟨next, allocCap t.slots.length * cfg.itemSize⟩
    let c := copySlots cfg t.slots (next + 1)
    (allocB nb :: c.1 ++ disposeAll t.slots ++ optFree t.blk,
     ⟨allocCap t.slots.length, some nb, c.2.1⟩, c.2.2)
  else (optFree t.blk, Tab.empty, next)

/-- The loop of the copying `operator+=`. -/
def mergeCopyLoop (cfg : Cfg) : List (Option Slot) → Tab → Nat → Res
  | [], t, next => ([], t, next)
  | none :: rest, t, next => mergeCopyLoop cfg rest t next
  | some s :: rest, t, next =>
    match findSlot t.slots s.key with
    | none =>
      let kb : Blk := ⟨next, s.key.length + 1⟩
      let vb : Option Blk := if cfg.hasValue then some ⟨next + 1, match s.vb with | some b => b.size | none => 1⟩ else none
      let next1 := if cfg.hasValue then next + 2 else next + 1
      let r := mergeCopyLoop cfg rest { t with slots := t.slots ++ [some ⟨s.key, kb, vb⟩] } next1
      (allocB kb :: vb.toList.map allocB ++ r.1, r.2.1, r.2.2)
    | some (i, d) =>
      if cfg.hasValue then
        let vb : Blk := ⟨next, match s.vb with | some b => b.size | none => 1⟩
        let r := mergeCopyLoop cfg rest { t with slots := t.slots.set i (some { d with vb := some vb }) } (next + 1)
        (optFree d.vb ++ allocB vb :: r.1, r.2.1, r.2.2)
      else mergeCopyLoop cfg rest t next

/-- The loop of the moving `operator+=`: an absent key adopts the source's blocks, a present one
adopts the value (releasing its own) and the source's key is disposed.  (`HList` items have no
value: both value fields are `none` and nothing happens for them.) -/
def mergeMoveLoop (cfg : Cfg) : List (Option Slot) → Tab → List Ev × Tab
  | [], t => ([], t)
  | none :: rest, t => mergeMoveLoop cfg rest t
  | some s :: rest, t =>
    match findSlot t.slots s.key with
    | none => mergeMoveLoop cfg rest { t with slots := t.slots ++ [some s] }
    | some (i, d) =>
      let r := mergeMoveLoop cfg rest { t with slots := t.slots.set i (some { d with vb := s.vb }) }
      (optFree d.vb ++ freeB s.kb :: r.1, r.2)

/-- The operand of a merge: a fresh table, `Insert`s, then `Remove`s. -/
def buildOperand (cfg : Cfg) (ins : List (List Nat × Nat)) (rem : List (List Nat)) (next : Nat) : Res :=
  let a := ins.foldl (fun (r : Res) kv =>
    let x := insert cfg r.2.1 r.2.2 kv.1 kv.2
    (r.1 ++ x.1, x.2.1, x.2.2)) (([], Tab.empty, next) : Res)
  rem.foldl (fun (r : Res) k =>
    let x := remove r.2.1 r.2.2 k
    (r.1 ++ x.1, x.2.1, x.2.2)) a

/-- `{ Table src; ...; h += src; }` or `h += Move(src)`; the source is destroyed at the end. -/
def merge (cfg : Cfg) (t : Tab) (next : Nat) (mv : Bool) (ins : List (List Nat × Nat)) (rem : List (List Nat)) : Res :=
  let b := buildOperand cfg ins rem next
  let src := b.2.1
  let n := t.slots.length + src.slots.length
  let g : Res := if n > t.cap then realloc cfg t n b.2.2 else ([], t, b.2.2)
  if mv then
    let m := mergeMoveLoop cfg src.slots g.2.1
    (b.1 ++ g.1 ++ m.1 ++ optFree src.blk, m.2, g.2.2)
  else
    let m := mergeCopyLoop cfg src.slots g.2.1 g.2.2
    (b.1 ++ g.1 ++ m.1 ++ (disposeAll src.slots ++ optFree src.blk), m.2.1, m.2.2)

/-- `~HashTable()`. -/
def destroy (t : Tab) : List Ev := disposeAll t.slots ++ optFree t.blk

inductive LOp where
  | insert (k : List Nat) (vid : Nat)
  | get (k : List Nat)
  | assign (k : List Nat) (vid : Nat)
  | lookup (k : List Nat)
  | lookupIdx (i : Nat)
  | remove (k : List Nat)
  | removeIdx (i : Nat)
  | rename (a b : List Nat)
  | reserve (n : Nat)
  | resize (n : Nat)
  | expect (n : Nat)
  | compress
  | clear
  | reset
  | sort (ascend : Bool)
  | copy
  | move
  | merge (mv : Bool) (ins : List (List Nat × Nat)) (rem : List (List Nat))
  | selfMerge

def step (cfg : Cfg) (t : Tab) (next : Nat) : LOp → Res
  | .insert k v => insert cfg t next k v
  | .get k => get cfg t next k
  | .assign k v => assign cfg t next k v
  | .lookup _ => ([], t, next)
  | .lookupIdx _ => ([], t, next)
  | .remove k => remove t next k
  | .removeIdx i => removeIdx t next i
  | .rename a b => rename t next a b
  | .reserve n => reserve cfg t next n
  | .resize n => resizeTo cfg t next n
  | .expect n => expect cfg t next n
  | .compress => compress cfg t next
  | .clear => clear t next
  | .reset => reset t next
  | .sort a => sort cfg t next a
  | .copy => copy cfg t next
  | .move => ([], t, next)
  | .merge mv ins rem => merge cfg t next mv ins rem
  | .selfMerge => ([], t, next)

def runOps (cfg : Cfg) : List LOp → Tab → Nat → Res
  | [], t, next => ([], t, next)
  | op :: ops, t, next =>
    let r := step cfg t next op
    let r' := runOps cfg ops r.2.1 r.2.2
    (r.1 ++ r'.1, r'.2.1, r'.2.2)

/-- The allocation trace of one object lifetime: construct empty, run the operations, destroy. -/
def lifetime (cfg : Cfg) (ops : List LOp) : List Ev :=
  let r := runOps cfg ops Tab.empty 1
  r.1 ++ destroy r.2.1

end Qentem.HashLedger
