import Qentem.Model.Tmpl.Render
import Qentem.Model.Group
/-
The link between the template renderer's value stand-in (`Qentem.Tmpl.Doc`, Model/Tmpl/Render.lean) and
the Value model: `Template.hpp:1280` (`renderLoop`) calls `loop_set->GroupBy(grouped_set, key, length)`
and, when it answers `true`, iterates `grouped_set`; the render model takes that call as the parameter
`RCtx.groupBy`.  `groupByTmpl` is the instance of that parameter given by the GroupBy model: translate
the set, run `groupByA` into a fresh destination, translate the result back.

`Tmpl.Doc` has no capacities, removed slots or pointers: an `undefined` member value stands for a removed
item (`toValue` makes it a removed slot); `ofValue` drops capacities and removed slots and shows a pointer
as `null` (no pointers can arise from `toValue`).
No proofs in this file.
-/
namespace Qentem.Value
open Doc

mutual
def toValue : Qentem.Tmpl.Doc → Doc
  | .undefined => undef | .null => null | .tru => tru | .fals => fls
  | .nat n => nat n
  | .int bits => int (u64ToInt bits)
  | .real b => real b
  | .str s => str s
  | .arr items => arr (toValueItems items)
  | .obj ms => obj (toValueMembers ms).length (toValueMembers ms)
def toValueItems : List Qentem.Tmpl.Doc → List Doc
  | [] => []
  | d :: r => toValue d :: toValueItems r
def toValueMembers : List (List Nat × Qentem.Tmpl.Doc) → List Slot
  | [] => []
  | (_, .undefined) :: r => none :: toValueMembers r
  | (k, v) :: r => some (k, toValue v) :: toValueMembers r
end

mutual
def ofValue : Doc → Qentem.Tmpl.Doc
  | undef => .undefined | null => .null | tru => .tru | fls => .fals
  | nat n => .nat n
  | int i => .int (intToU64 i)
  | real b => .real b
  | str s => .str s
  | arr items => .arr (ofValueItems items)
  | obj _ slots => .obj (ofValueSlots slots)
  | ptr _ => .null
def ofValueItems : List Doc → List Qentem.Tmpl.Doc
  | [] => []
  | d :: r => ofValue d :: ofValueItems r
def ofValueSlots : List Slot → List (List Nat × Qentem.Tmpl.Doc)
  | [] => []
  | none :: r => ofValueSlots r
  | some (k, v) :: r => (k, ofValue v) :: ofValueSlots r
end

/-- the instance of `RCtx.groupBy`: `GroupBy` into a fresh value; `none` when it answers `false`
(the loop then renders nothing, Template.hpp:1280-1282). -/
def groupByTmpl (fmtReal : Nat → List Nat) (set : Qentem.Tmpl.Doc) (key : List Nat) : Option Qentem.Tmpl.Doc :=
  let r := groupByA fmtReal [] (toValue set) key undef
  if r.1 then some (ofValue r.2) else none

/-- what the loop iterates of an object set: the members with a defined value, in slot order
(`loopIter`: `SetValueAndKey`, items whose value is undefined are not rendered). -/
def tmplMembers (ms : List (List Nat × Qentem.Tmpl.Doc)) : List (List Nat × Qentem.Tmpl.Doc) :=
  ms.filter (fun m => !m.2.isUndefined)

/-- the members an inner loop over one group element iterates. -/
def tmplItemView (it : Qentem.Tmpl.Doc) : List (List Nat × Qentem.Tmpl.Doc) :=
  match it with
  | .obj m => tmplMembers m
  | _ => []

/-- the elements of one group value. -/
def tmplValueView (v : Qentem.Tmpl.Doc) : List (List (List Nat × Qentem.Tmpl.Doc)) :=
  match v with
  | .arr items => items.map tmplItemView
  | _ => []

/-- the groups a `group=` loop iterates: group name (the loop key) and, per group, the member lists of its
elements (what an inner loop over the group value iterates). -/
def tmplGroupView (d : Qentem.Tmpl.Doc) : List (List Nat × List (List (List Nat × Qentem.Tmpl.Doc))) :=
  match d with
  | .obj ms => (tmplMembers ms).map (fun g => (g.1, tmplValueView g.2))
  | _ => []

end Qentem.Value
