/-
Model of `Memory::Sort<Ascend_T>` (Include/Memory.hpp:116-147) and of its callers
`Array::Sort` (Array.hpp:272-278), `HashTable::Sort` (HashTable.hpp:300-311, the ordering part)
and `Value::Sort` (Value.hpp:1919-1927).

The C++ sorts `arr[start, end)` in place: the pivot is `arr[start]` (held by *reference* in
`item`, so the model re-reads `arr[start]` at every comparison), `index` is the last slot of the
"goes before the pivot" block, `offset` scans; when `arr[offset]` goes before the pivot
`index` is advanced and `arr[index]`, `arr[offset]` are swapped (a Lomuto partition).  After
the scan the pivot is swapped to `index` and both sides are sorted recursively.

`before x p` is the comparison the template parameter selects: `x < p` when `Ascend_T`,
`x > p` otherwise.  In-place mutation becomes a returned array.  Every read and swap is
checked: `none` means an access outside the array or exhausted fuel (the recursion is not
structural, so it takes a fuel argument; `Proofs/Sort.lean` shows `fuel = end - start` is
enough and that `none` never occurs when `start ≤ end ≤ arr.size`).
-/
namespace Qentem.Sort

/-- `Memory::Swap(arr[i], arr[j])`, checked. -/
def swap? (arr : Array α) (i j : Nat) : Option (Array α) :=
  if h : i < arr.size ∧ j < arr.size then some (arr.swap i j h.1 h.2) else none

/-- The scan `while (offset < end) {...}` (Memory.hpp:123-137) with an explicit iteration budget
    (`none` if it runs out, which `partLoop` below never lets happen). Returns the array and `index`. -/
def partLoopN (before : α → α → Bool) : Nat → Array α → Nat → Nat → Nat → Nat → Option (Array α × Nat)
  | 0, arr, _, index, offset, stop => if offset < stop then none else some (arr, index)
  | n + 1, arr, start, index, offset, stop =>
    if offset < stop then
      match arr[offset]?, arr[start]? with
      | some x, some pivot =>
        if before x pivot then
          match swap? arr (index + 1) offset with
          | some arr' => partLoopN before n arr' start (index + 1) (offset + 1) stop
          | none => none
        else partLoopN before n arr start index (offset + 1) stop
      | _, _ => none
    else some (arr, index)

/-- The scan runs `stop - offset` iterations. -/
def partLoop (before : α → α → Bool) (arr : Array α) (start index offset stop : Nat) :
    Option (Array α × Nat) :=
  partLoopN before (stop - offset) arr start index offset stop

/-- `Memory::Sort<Ascend_T>(arr, start, end)`; `fuel` bounds the recursion depth. -/
def sortSeg (before : α → α → Bool) : Nat → Array α → Nat → Nat → Option (Array α)
  | 0, arr, start, stop => if start = stop then some arr else none
  | fuel + 1, arr, start, stop =>
    if start = stop then some arr
    else
      match partLoop before arr start start (start + 1) stop with
      | none => none
      | some (arr1, index) =>
        match (if index ≠ start then swap? arr1 index start else some arr1) with
        | none => none
        | some arr2 =>
          match sortSeg before fuel arr2 start index with
          | none => none
          | some arr3 => sortSeg before fuel arr3 (index + 1) stop

/-- `Array::Sort(ascend)`: `Memory::Sort<ascend>(Storage(), 0, Size())`. -/
def arraySort (lt gt : α → α → Bool) (ascend : Bool) (arr : Array α) : Option (Array α) :=
  sortSeg (if ascend then lt else gt) arr.size arr 0 arr.size

/-- `HashTable::Sort` / `Value::Sort` on an object, as far as ordering goes: the slots
    `(key, value, live)` are sorted by key (`HAItem_T::operator<` compares `Key`); a removed slot has
    the empty key and `live = false`. -/
abbrev Slot3 := List Nat × Nat × Bool

/-- The association a hash array denotes: its live slots. -/
def liveAssoc (slots : List Slot3) : List (List Nat × Nat) :=
  (slots.filter (fun s => s.2.2)).map (fun s => (s.1, s.2.1))

/-- Lookup by key in the denoted association. -/
def lookupLive (k : List Nat) (slots : List Slot3) : Option Nat := (liveAssoc slots).lookup k

/-- A sequence is ordered for `before` when no later element goes before an earlier one. -/
def orderedBy (before : α → α → Bool) : List α → Bool
  | [] => true
  | x :: rest => rest.all (fun y => !before y x) && orderedBy before rest

/-- The comparisons `orderedBy` looks at, in its order: for every position, `before y x` for
    each later `y`.  The harness prints this table computed with the C++ operators themselves, so
    the S3 oracle judges a Sort result by the implementation's own relation. -/
def pairsTable (before : α → α → Bool) : List α → List Bool
  | [] => []
  | x :: rest => rest.map (fun y => before y x) ++ pairsTable before rest

/-- No entry of the table says "a later element goes before an earlier one". -/
def tableOrdered (bits : List Bool) : Bool := bits.all (fun b => !b)

/-- Second table: `le x y` for every earlier `x` and later `y` (`<=` ascending, `>=` descending). -/
def chainTable (le : α → α → Bool) : List α → List Bool
  | [] => []
  | x :: rest => rest.map (fun y => le x y) ++ chainTable le rest

/-- Every earlier element is `<=` (`>=`) every later one. -/
def tableChain (bits : List Bool) : Bool := bits.all (fun b => b)

/-- `out` is a rearrangement of `inp`: every element occurs equally often (decidable form of
    `List.Perm`, see `Proofs/Sort.lean`). -/
def isPermOf [BEq α] (out inp : List α) : Bool :=
  (out ++ inp).all (fun x => out.count x == inp.count x)

end Qentem.Sort
