/-!
# Model of `Memory::Copy` and `Memory::SetToZero` (Include/Memory.hpp:31-92)

Both routines have the same shape:

```
offset = 0
if (Config::IsSIMDEnabled) {                       // `simd`
    m_size = size >> Platform::SIMD::Shift         // number of whole vector blocks
    if (m_size != 0) {
        offset = m_size << Shift
        do { Store(m_to, Load(m_from)); ++m_from; ++m_to; } while (m_from < end)   // m_size rounds
    }
}
while (offset < size) { des[offset] = src[offset]; ++offset; }                     // scalar tail
```

Memory is a `List Nat` of bytes.  The pointer cursors became a byte offset `off`; the do-while over
`m_size ≠ 0` blocks became structural recursion on the number of remaining blocks; the scalar tail
became structural recursion on `size - offset`.  Semantics are *checked*: a block load/store or a
byte load/store that is not completely inside its buffer yields `none` (what ASan reports as an
overflow).  The block size is `2 ^ shift` for an arbitrary `shift` (scalar build: `simd = false`,
SSE2: `shift = 4`, AVX2: `shift = 5`, Platform.hpp:44,92,188).  Alignment does not occur: the code
uses the unaligned `loadu/storeu` intrinsics (Platform.hpp:47-53, 95-101).
-/
namespace Qentem.Mem

/-- `SIMD::Load` of one `b`-byte block at byte offset `off`. -/
def loadBlock (src : List Nat) (off b : Nat) : Option (List Nat) :=
  if off + b ≤ src.length then some ((src.drop off).take b) else none

/-- `SIMD::Store` of one block at byte offset `off`. -/
def storeBlock (dst : List Nat) (off : Nat) (blk : List Nat) : Option (List Nat) :=
  if off + blk.length ≤ dst.length then some (dst.take off ++ blk ++ dst.drop (off + blk.length)) else none

/-- `des[off] = v` -/
def storeByte (dst : List Nat) (off v : Nat) : Option (List Nat) :=
  if off < dst.length then some (dst.set off v) else none

/-- The vector loop of `Copy`: `n` rounds starting at byte offset `off`. -/
def copySimd (b : Nat) : Nat → Nat → List Nat → List Nat → Option (List Nat)
  | 0, _, dst, _ => some dst
  | n + 1, off, dst, src =>
    match loadBlock src off b with
    | none => none
    | some blk =>
      match storeBlock dst off blk with
      | none => none
      | some dst' => copySimd b n (off + b) dst' src

/-- The scalar tail of `Copy`: `n = size - offset` rounds. -/
def copyTail : Nat → Nat → List Nat → List Nat → Option (List Nat)
  | 0, _, dst, _ => some dst
  | n + 1, off, dst, src =>
    match src[off]? with
    | none => none
    | some v =>
      match storeByte dst off v with
      | none => none
      | some dst' => copyTail n (off + 1) dst' src

/-- `Memory::Copy(to, from, size)` — `dst`/`src` are the memory starting at `to`/`from`. -/
def copyBlocks (simd : Bool) (shift size : Nat) (dst src : List Nat) : Option (List Nat) :=
  let mSize := if simd then size >>> shift else 0
  let offset := mSize <<< shift
  match (if mSize != 0 then copySimd (2 ^ shift) mSize 0 dst src else some dst) with
  | none => none
  | some d1 => copyTail (size - offset) offset d1 src

/-- The vector loop of `SetToZero`. -/
def zeroSimd (b : Nat) : Nat → Nat → List Nat → Option (List Nat)
  | 0, _, dst => some dst
  | n + 1, off, dst =>
    match storeBlock dst off (List.replicate b 0) with
    | none => none
    | some dst' => zeroSimd b n (off + b) dst'

/-- The scalar tail of `SetToZero`. -/
def zeroTail : Nat → Nat → List Nat → Option (List Nat)
  | 0, _, dst => some dst
  | n + 1, off, dst =>
    match storeByte dst off 0 with
    | none => none
    | some dst' => zeroTail n (off + 1) dst'

/-- `Memory::SetToZero(pointer, size)`. -/
def zeroBlocks (simd : Bool) (shift size : Nat) (dst : List Nat) : Option (List Nat) :=
  let mSize := if simd then size >>> shift else 0
  let offset := mSize <<< shift
  match (if mSize != 0 then zeroSimd (2 ^ shift) mSize 0 dst else some dst) with
  | none => none
  | some d1 => zeroTail (size - offset) offset d1

/-- What a plain byte copy does (the specification): the first `size` bytes of the destination are
those of the source, everything after is untouched. -/
def copySpec (size : Nat) (dst src : List Nat) : List Nat := src.take size ++ dst.drop size

def zeroSpec (size : Nat) (dst : List Nat) : List Nat := List.replicate size 0 ++ dst.drop size

/-- 32-bit FNV-1a digest, used by the driver and the harness to compare large buffers. -/
def fnv (l : List Nat) : Nat :=
  l.foldl (fun h b => ((h ^^^ (b % 256)) * 16777619) % 4294967296) 2166136261

/-- The byte pattern both sides fill the source with. -/
def pattern (seed n : Nat) : List Nat :=
  (List.range n).map (fun i => (i * 131 + seed * 7 + i / 256 + 1) % 256)

end Qentem.Mem
