import Qentem.Generated.StrToNum
/-!
# Model of `Digit::StringToNumber` (C09) — core Lean only, no proofs here

Transcribes `Include/Digit.hpp` (the tree with the four C09 repairs applied:
`notes/fix-{overflow-finite-garbage,exponent-wrap,zero-mantissa-exponent-unconsumed,min-int64-as-real}.diff`):

| definition            | C++ lines (Digit.hpp)                                                        |
|-----------------------|------------------------------------------------------------------------------|
| `hexLoop`             | `HexStringToNumber` 142-177                                                   |
| `skipZeros`           | 284-294 (`0.000x` zero skipping)                                              |
| `scanDigits`          | 312-324 (inner digit loop, bounded by `max_end_offset`)                       |
| `iter2`, `iter1`      | 311-358 (outer loop; it runs at most twice because `has_dot` is set once)     |
| `twentieth`           | 360-410 (the 20th digit and the `0x1999999999999999` overflow test)           |
| `expDigits`,`parseExponent` | 675-723                                                                 |
| `tailLoop`            | 448-487 (`keep_going` loop: ignored digits, a late dot, the exponent)         |
| `posLoop`,`posScale`,`posFinish`,`powerOfPositiveTen` | 629-672                                       |
| `negLoop`,`negScale`,`negFinish`,`powerOfNegativeTen` | 543-626 (the 8-byte branch)                   |
| `adjustExponent`,`realResult`,`finishReal` | 428-535                                                  |
| `strToNum`            | `stringToNumber` 219-540                                                      |

Conventions.
* Code units are `Nat`; the routine only compares units with ASCII constants, so the model is the
  same for `char`, `char16_t`, `char32_t`, `wchar_t` (units ≥ 128 match no branch, also when the
  C++ type is signed and they are negative there).
* Cursors are values: every C++ local that is assigned becomes a `let`/argument. `while` loops
  whose trip count is bounded by `end - offset` recurse structurally on that remaining count.
* **Checked reads**: `rd c e i` is `none` when `i ≥ e` (or outside the list). The whole model lives
  in `Option`; `none` = the C++ would read outside `[content, content + end_offset)`.
* `SizeT`/`SizeT32` arithmetic that can wrap is written with `sub32`/`add32`; 64-bit with `% 2^64`.
* `BigInt<SizeT64,256>` objects are `Nat`s truncated to 256 bits (`bmul`, `bshl`), `Index()` is the
  index of the top non-zero 64-bit word, `FindLastBit` is `Nat.log2` (C19 proves the word-level
  code exact; the pipeline here never exceeds 255 bits — see `Proofs/StrToNum*.lean`).
* Every `return` reports `(kind, number.Natural, offset)` as the C++ leaves them, also for
  `NotANumber`.
-/
namespace Qentem.StrToNum
open Qentem.Generated.StrToNum

inductive Kind where
  | notANumber | real | natural | integer
deriving DecidableEq, Repr, Inhabited

/-- numeric value of the `QNumberType` enumerator -/
def Kind.code : Kind → Nat
  | .notANumber => 0 | .real => 1 | .natural => 2 | .integer => 3

structure Res where
  kind : Kind
  bits : Nat
  offset : Nat
deriving DecidableEq, Repr, Inhabited

/-- Checked read of `content[i]` for a converter called with `end_offset = e`. -/
def rd (c : List Nat) (e i : Nat) : Option Nat := if i < e then c[i]? else none

def isDigit (d : Nat) : Bool := decide (48 ≤ d) && decide (d ≤ 57)
def isNonZeroDigit (d : Nat) : Bool := decide (48 < d) && decide (d ≤ 57)
/-- `.`, `e`, `E` -/
def isDotOrE (d : Nat) : Bool := d == 46 || d == 101 || d == 69

def sub32 (a b : Nat) : Nat := (a + 2 ^ 32 - b % 2 ^ 32) % 2 ^ 32
def add32 (a b : Nat) : Nat := (a + b) % 2 ^ 32
def b2n (b : Bool) : Nat := if b then 1 else 0

/-- `number *= 10; number += digit; number -= '0'` on `SizeT64`. -/
def pushDigit (num d : Nat) : Nat := (num * 10 + (d - 48)) % 2 ^ 64

/-! ### Hex (lenient extra: `0x…` / `0X…`, sign ignored) -/

def hexLoop (c : List Nat) (e : Nat) : Nat → Nat → Nat → Option (Nat × Nat)
  | 0, off, num => some (num, off)
  | k + 1, off, num =>
    match rd c e off with
    | none => none
    | some d =>
      if 48 ≤ d ∧ d ≤ 57 then hexLoop c e k (off + 1) (((num * 16) % 2 ^ 64) ||| (d - 48))
      else if 65 ≤ d ∧ d ≤ 70 then hexLoop c e k (off + 1) (((num * 16) % 2 ^ 64) ||| (d - 55))
      else if 97 ≤ d ∧ d ≤ 102 then hexLoop c e k (off + 1) (((num * 16) % 2 ^ 64) ||| (d - 87))
      else some (num, off)

/-! ### Scanning loops -/

/-- `while (offset < end_offset) { digit = content[offset]; if (digit == '0') {++offset; continue;} break; }`
returns `(offset, digit)`; `k = end_offset - offset`. -/
def skipZeros (c : List Nat) (e : Nat) : Nat → Nat → Nat → Option (Nat × Nat)
  | 0, off, digit => some (off, digit)
  | k + 1, off, _ =>
    match rd c e off with
    | none => none
    | some d => if d = 48 then skipZeros c e k (off + 1) d else some (off, d)

/-- inner loop 312-324; `k = max_end_offset - offset`; returns `(offset, number, digit)`. -/
def scanDigits (c : List Nat) (e : Nat) : Nat → Nat → Nat → Nat → Option (Nat × Nat × Nat)
  | 0, off, num, digit => some (off, num, digit)
  | k + 1, off, num, _ =>
    match rd c e off with
    | none => none
    | some d => if isDigit d then scanDigits c e k (off + 1) (pushDigit num d) d else some (off, num, d)

/-- `((end_offset - offset) < max_length) ? end_offset : (offset + max_length)`, `max_length = 19` -/
def windowEnd (e off : Nat) : Nat := if sub32 e off < 19 then e else add32 off 19

/-- State after the windowed scan. -/
structure Scan where
  num : Nat
  off : Nat
  hasDot : Bool
  dotOff : Nat
  isReal : Bool
deriving DecidableEq, Repr

/-- An outer-loop iteration entered with `has_dot = true`: a dot now is the second one. -/
def iter2 (c : List Nat) (e maxEnd num off digit dotOff : Nat) : Option (Res ⊕ Scan) :=
  if off < e then
    match scanDigits c e (maxEnd - off) off num digit with
    | none => none
    | some (off1, num1, d1) =>
      if d1 = 46 then some (.inl ⟨.notANumber, num1, off1⟩)
      else some (.inr ⟨num1, off1, true, dotOff, true⟩)
  else some (.inr ⟨num, off, true, dotOff, true⟩)

/-- The outer loop 311-358 from its first iteration. -/
def iter1 (c : List Nat) (e maxEnd num off digit : Nat) (hasDot : Bool) (dotOff : Nat) (isReal : Bool) :
    Option (Res ⊕ Scan) :=
  if hasDot then iter2 c e maxEnd num off digit dotOff else
  if off < e then
    match scanDigits c e (maxEnd - off) off num digit with
    | none => none
    | some (off1, num1, d1) =>
      if d1 = 46 then
        let off2 := off1 + 1
        if off2 < maxEnd then
          match rd c e off2 with
          | none => none
          | some d2 =>
            if isNonZeroDigit d2 then iter2 c e maxEnd num1 off2 d2 off1
            else if d2 = 48 ∧ off2 + 1 < maxEnd then
              match rd c e (off2 + 1) with
              | none => none
              | some d3 =>
                if isDigit d3 then iter2 c e maxEnd num1 off2 d3 off1
                else some (.inr ⟨num1, off2, true, off1, true⟩)
            else some (.inr ⟨num1, off2, true, off1, true⟩)
        else some (.inr ⟨num1, off2, true, off1, true⟩)
      else some (.inr ⟨num1, off1, false, dotOff, isReal⟩)
  else some (.inr ⟨num, off, false, dotOff, isReal⟩)

/-- 360-410: returns `(number, offset, tmp_offset, is_real)`. -/
def twentieth (c : List Nat) (e num off : Nat) (isReal : Bool) : Option (Nat × Nat × Nat × Bool) :=
  if !isReal ∧ off < e then
    match rd c e off with
    | none => none
    | some d =>
      if isDotOrE d then some (num, off, off, true)
      else if isDigit d then
        if num > 0x1999999999999999 ∨ (num = 0x1999999999999999 ∧ d > 53) then some (num, off, off, true)
        else
          let num1 := pushDigit num d
          let off1 := off + 1
          if off1 < e then
            match rd c e off1 with
            | none => none
            | some d2 => some (num1, off1, off1, isDotOrE d2 || isDigit d2)
          else some (num1, off1, off1, false)
      else some (num, off, off, false)
  else some (num, off, off, isReal)

/-! ### Exponent -/

/-- digit loop of `parseExponent`; `k = end_offset - offset`; repaired: saturates instead of wrapping. -/
def expDigits (c : List Nat) (e : Nat) : Nat → Nat → Nat → Option (Nat × Nat)
  | 0, off, x => some (x, off)
  | k + 1, off, x =>
    match rd c e off with
    | none => none
    | some d =>
      if isDigit d then
        expDigits c e k (off + 1) (if x < 100000000 then (x * 10 + (d - 48)) % 2 ^ 32 else x)
      else some (x, off)

/-- returns `(ok, exponent, is_negative_exp, offset)` -/
def parseExponent (c : List Nat) (e off : Nat) : Option (Bool × Nat × Bool × Nat) :=
  if off < e then
    match rd c e off with
    | none => none
    | some d =>
      if d = 43 ∨ d = 45 then
        let neg : Bool := d == 45
        let off1 := off + 1
        if off1 < e then
          match rd c e off1 with
          | none => none
          | some d1 =>
            if d1 = 43 ∨ d1 = 45 then some (false, 0, neg, off1)
            else
              match expDigits c e (e - off1) off1 0 with
              | none => none
              | some (x, off2) => some (off2 != off1, x, neg, off2)
        else some (false, 0, neg, off1)
      else
        match expDigits c e (e - off) off 0 with
        | none => none
        | some (x, off2) => some (off2 != off, x, false, off2)
  else some (false, 0, false, off)

structure Tail where
  off : Nat
  hasDot : Bool
  dotOff : Nat
  expOff : Nat
  exponent : Nat
  negExp : Bool
deriving DecidableEq, Repr

/-- `keep_going` loop 448-487; `k = end_offset - offset`; `num` only travels into a `NotANumber` result. -/
def tailLoop (c : List Nat) (e num : Nat) : Nat → Nat → Bool → Nat → Option (Res ⊕ Tail)
  | 0, off, hasDot, dotOff => some (.inr ⟨off, hasDot, dotOff, 0, 0, false⟩)
  | k + 1, off, hasDot, dotOff =>
    match rd c e off with
    | none => none
    | some d =>
      if isDigit d then tailLoop c e num k (off + 1) hasDot dotOff
      else if d = 46 then
        if !hasDot then tailLoop c e num k (off + 1) true off
        else some (.inl ⟨.notANumber, num, off⟩)
      else if d = 101 ∨ d = 69 then
        match parseExponent c e (off + 1) with
        | none => none
        | some (ok, x, neg, off1) =>
          if ok then some (.inr ⟨off1, hasDot, dotOff, off, x, neg⟩)
          else some (.inl ⟨.notANumber, num, off1⟩)
      else some (.inr ⟨off, hasDot, dotOff, 0, 0, false⟩)

/-! ### Scaling by powers of ten (`BigInt<SizeT64, 256>` as a truncated `Nat`) -/

def bigW : Nat := 2 ^ bigIntTotalBits
def bmul (b m : Nat) : Nat := (b * m) % bigW
def bshl (b k : Nat) : Nat := (b * 2 ^ k) % bigW
def bshr (b k : Nat) : Nat := b / 2 ^ k
/-- `Index()`: index of the top non-zero word -/
def bindex (b : Nat) : Nat := if b = 0 then 0 else Nat.log2 b / bigIntTypeWidth
/-- `number += (number & 1); number >>= 1` on `SizeT64` -/
def roundBit (n : Nat) : Nat := ((n + n % 2) % 2 ^ 64) / 2

/-- `while (exponent >= MaxPowerOfFive)` of `powerOfPositiveTen`; `n` = trip count. -/
def posLoop (p : Nat) : Nat → Nat → Nat → Nat × Nat
  | 0, b, s => (b, s)
  | n + 1, b, s =>
    let b1 := bmul b p
    if bindex b1 > 2 then posLoop p n (bshr b1 maxShift) (add32 s maxShift) else posLoop p n b1 s

/-- the `BigInt` part of `powerOfPositiveTen`: `(b_int, shifted)` before `FindLastBit` -/
def posScale (num exponent : Nat) : Option (Nat × Nat) :=
  match powerOfFive[maxPowerOfFive]? with
  | none => none
  | some p =>
    let bs := posLoop p (exponent / maxPowerOfFive) num exponent
    let r := exponent % maxPowerOfFive
    if r ≠ 0 then (powerOfFive[r]?).map (fun q => (bmul bs.1 q, bs.2)) else some bs

/-- 653-672: normalise to 53 bits, round, assemble the pattern (repaired: infinity on overflow) -/
def posFinish (b shifted0 : Nat) : Nat :=
  let bit := Nat.log2 b
  let ns : Nat × Nat :=
    if bit ≤ 52 then (((b % 2 ^ 64) * 2 ^ (52 - bit)) % 2 ^ 64, shifted0)
    else
      let n := roundBit ((bshr b (bit - 53)) % 2 ^ 64)
      (n, add32 shifted0 (b2n (decide (n > 0x1FFFFFFFFFFFFF))))
  let exp := bias + bit + ns.2
  if exp ≥ 0x7FF then 0x7FF0000000000000
  else (ns.1 &&& 0xFFFFFFFFFFFFF) ||| ((exp * 2 ^ 52) % 2 ^ 64)

/-- `powerOfPositiveTen(number, exponent)` → the new `number` (binary64 pattern without sign). -/
def powerOfPositiveTen (num exponent : Nat) : Option Nat :=
  (posScale num exponent).map (fun bs => posFinish bs.1 bs.2)

/-- `while (exponent >= MaxPowerOfFive)` of `powerOfNegativeTen` (8-byte branch); `n` = trip count. -/
def negLoop (r s : Nat) : Nat → Nat → Nat → Nat × Nat
  | 0, b, sh => (b, sh)
  | n + 1, b, sh => negLoop r s n (bshr (bmul b r) maxShift) (add32 sh s)

/-- the `BigInt` part of `powerOfNegativeTen`: `(b_int, shifted)` before `FindLastBit` -/
def negScale (num exponent : Nat) : Option (Nat × Nat) :=
  match powerOfOneOverFive[maxPowerOfFive]?, powerOfOneOverFiveShift[maxPowerOfFive]? with
  | some r27, some s27 =>
    let bs := negLoop r27 s27 (exponent / maxPowerOfFive) (bshl num 64) (add32 exponent 64)
    let r := exponent % maxPowerOfFive
    if r ≠ 0 then
      match powerOfOneOverFive[r]?, powerOfOneOverFiveShift[r]? with
      | some rr, some ss => some (bshr (bmul bs.1 rr) maxShift, add32 bs.2 ss)
      | _, _ => none
    else some bs
  | _, _ => none

/-- 588-625: normalise to 54 bits, the three exponent cases (normal ≥ 1, normal < 1, subnormal) -/
def negFinish (b shifted : Nat) : Nat :=
  let bit := Nat.log2 b
  let number := (bshr b (sub32 bit 53)) % 2 ^ 64
  let ne : Nat × Nat :=
    if shifted ≤ bit then
      let n := roundBit number
      (n, add32 (add32 bias (bit - shifted)) (b2n (decide (n > 0x1FFFFFFFFFFFFF))))
    else
      let sh := shifted - bit
      if bias > sh then
        let n := roundBit number
        (n, add32 (bias - sh) (b2n (decide (n > 0x1FFFFFFFFFFFFF))))
      else
        let n := roundBit (number / 2 ^ (add32 (sh - bias) 1))
        (n, b2n (decide (n > 0xFFFFFFFFFFFFF)))
  (ne.1 &&& 0xFFFFFFFFFFFFF) ||| ((ne.2 * 2 ^ 52) % 2 ^ 64)

/-- `powerOfNegativeTen(number, exponent)` → the new `number`. -/
def powerOfNegativeTen (num exponent : Nat) : Option Nat :=
  (negScale num exponent).map (fun bs => negFinish bs.1 bs.2)

/-! ### The real-number tail 428-535 -/

/-- 489-517: fold the digits ignored after the window and the scanned fraction digits into the
exponent → `(exponent, is_negative_exp)`; `off`/`dotOff` are the values before the tail loop. -/
def adjustExponent (fractionOnly : Bool) (off dotOff en10 : Nat) (t : Tail) : Nat × Bool :=
  let xn1 : Nat × Bool :=
    if !fractionOnly ∧ off ≠ t.off then
      let extra :=
        if !t.hasDot then (if t.expOff = 0 then sub32 t.off off else sub32 t.expOff off)
        else if t.dotOff ≠ dotOff then sub32 t.dotOff off else 0
      if !t.negExp then (add32 t.exponent extra, false)
      else if t.exponent ≤ extra then (sub32 extra t.exponent, false)
      else (sub32 t.exponent extra, true)
    else (t.exponent, t.negExp)
  if xn1.2 then (add32 xn1.1 en10, true)
  else if xn1.1 ≥ en10 then (sub32 xn1.1 en10, false)
  else (sub32 en10 xn1.1, true)

/-- 519-535 (repaired: the range test and the scaling only for a non-zero mantissa) -/
def realResult (neg : Bool) (num ep10 x : Nat) (negExp : Bool) (off : Nat) : Option Res :=
  let sign := if neg then 0x8000000000000000 else 0
  if num ≠ 0 then
    if (negExp ∧ x > ep10 ∧ sub32 x ep10 > 324) ∨ (!negExp ∧ add32 x ep10 > 309) then
      some ⟨.notANumber, num, off⟩
    else
      match (if negExp then powerOfNegativeTen num x else powerOfPositiveTen num x) with
      | none => none
      | some v => some ⟨.real, v ||| sign, off⟩
  else some ⟨.real, num ||| sign, off⟩

def finishReal (c : List Nat) (e : Nat) (neg : Bool) (num off tmp start : Nat) (fractionOnly hasDot : Bool)
    (dotOff : Nat) : Option Res :=
  let ep10 := sub32 (sub32 tmp start) (b2n (!fractionOnly && hasDot))
  let en10 := if fractionOnly then add32 ep10 (sub32 (sub32 start dotOff) 1)
              else if hasDot then sub32 (sub32 off dotOff) 1 else 0
  match tailLoop c e num (e - off) off hasDot dotOff with
  | none => none
  | some (.inl r) => some r
  | some (.inr t) =>
    -- repaired (sticky exponent overflow): nine or more exponent digits are out of range whatever the mantissa
    if t.exponent ≥ 100000000 ∧ num ≠ 0 then some ⟨.notANumber, num, t.off⟩ else
    let xn := adjustExponent fractionOnly off dotOff en10 t
    realResult neg num ep10 xn.1 xn.2 t.off

/-- After the windowed scan: the 20th digit, the integer returns, else the real tail. -/
def afterScan (c : List Nat) (e : Nat) (neg : Bool) (start : Nat) (fractionOnly : Bool) (s : Scan) : Option Res :=
  match twentieth c e s.num s.off s.isReal with
  | none => none
  | some (num, off, tmp, isReal) =>
    if !isReal ∧ !neg then some ⟨.natural, num, off⟩
    else if !isReal ∧ num = 0 then some ⟨.real, 0x8000000000000000, off⟩
    else if !isReal ∧ num ≤ 0x8000000000000000 then some ⟨.integer, (2 ^ 64 - num) % 2 ^ 64, off⟩
    else finishReal c e neg num off tmp start fractionOnly s.hasDot s.dotOff

/-- continue after the windowed scan unless it already returned -/
def thenScan (r : Option (Res ⊕ Scan)) (k : Scan → Option Res) : Option Res :=
  match r with
  | none => none
  | some (.inl r) => some r
  | some (.inr s) => k s

/-- 246-307: the first unit after the sign, then the scan. `off` = offset after the sign. -/
def afterSign (c : List Nat) (e : Nat) (neg : Bool) (off : Nat) : Option Res :=
  if off < e then
    match rd c e off with
    | none => none
    | some d =>
      if isNonZeroDigit d then
        thenScan (iter1 c e (windowEnd e off) (d - 48) (off + 1) d false 0 false) (afterScan c e neg off false)
      else if d = 48 ∨ d = 46 then
        -- `(digit == '0') && (offset + 1) < end_offset`: look at the unit after a leading zero
        let step : Option (Res ⊕ (Nat × Nat)) :=
          if d = 48 ∧ off + 1 < e then
            match rd c e (off + 1) with
            | none => none
            | some d1 =>
              if d1 = 120 ∨ d1 = 88 then
                match hexLoop c e (e - (off + 2)) (off + 2) 0 with
                | none => none
                | some (v, o) => some (.inl ⟨.natural, v, o⟩)
              else if isDigit d1 then some (.inl ⟨.notANumber, 0, off + 1⟩)
              else some (.inr (off + 1, d1))
          else some (.inr (off, d))
        match step with
        | none => none
        | some (.inl r) => some r
        | some (.inr (off1, dg)) =>
          if dg = 46 then
            -- `0.xxx` / `.xxx`
            match skipZeros c e (e - (off1 + 1)) (off1 + 1) dg with
            | none => none
            | some (off2, dg2) =>
              if off1 + 1 = off2 ∧ off1 = off ∧ !isDigit dg2 then some ⟨.notANumber, 0, off2⟩   -- just a dot
              else
                thenScan (iter1 c e (windowEnd e off2) 0 off2 dg2 true off1 true) (afterScan c e neg off2 true)
          else
            -- `start_offset` keeps its initial value 0 on this path
            thenScan (iter1 c e (windowEnd e off1) 0 off1 dg false 0 false) (afterScan c e neg 0 false)
      else some ⟨.notANumber, 0, off⟩
  else some ⟨.notANumber, 0, off⟩

/-- `Digit::StringToNumber(number, content, offset, end_offset)` → `(kind, number.Natural, offset)`;
`none` = a read outside `[0, end_offset)`. -/
def strToNum (c : List Nat) (offset e : Nat) : Option Res :=
  if offset < e then
    match rd c e offset with
    | none => none
    | some d =>
      if d = 45 then afterSign c e true (offset + 1)
      else if d = 43 then afterSign c e false (offset + 1)
      else afterSign c e false offset
  else some ⟨.notANumber, 0, offset⟩

end Qentem.StrToNum
