/-!
# Specification side of C09 (core Lean only): decimal numerals, their exact value, correct rounding

* `Numeral` — abstract syntax of `[+-]? digits (. digits)? ([eE] [+-]? digits)?`;
  `Numeral.units` prints it, `parseNumeral` reads the longest numeral prefix of a unit string.
* `numeralValue : Numeral → Rat` — the exact value.
* `nearestMag n d` — the binary64 pattern (sign bit clear) nearest to `n / d`, ties to even,
  gradual underflow, `0x7FF0000000000000` (infinity) once the rounded value exceeds the largest
  finite double.  `nearestDouble : Rat → Nat` adds the sign bit.
* `ulpDist` — distance in units in the last place = difference of the magnitude patterns
  (positive doubles are ordered like their patterns; infinity is the successor of the largest finite).
* `classify` — which clause of the property applies to a text: a grammar numeral (possibly followed
  by a unit that cannot continue it), one of the listed malformed shapes, or a lenient extra.
None of this looks at the C++ algorithm.
-/
namespace Qentem.Round

structure Numeral where
  neg : Bool
  plus : Bool := false          -- an explicit leading `+` (no influence on the value)
  intDigits : List Nat          -- digit values 0..9, most significant first
  fracDigits : List Nat         -- after the dot; `[]` and `hasDot = false` = no fraction part
  hasDot : Bool
  hasExp : Bool
  expNeg : Bool
  expPlus : Bool := false
  expDigits : List Nat
  upperE : Bool := false
deriving DecidableEq, Repr

def digitsVal (ds : List Nat) : Nat := ds.foldl (fun a d => a * 10 + d) 0

/-- `|x| = mantissa · 10^(exp − #fraction digits)` as a fraction of naturals `(n, d)`. -/
def Numeral.magFrac (x : Numeral) : Nat × Nat :=
  let m := digitsVal (x.intDigits ++ x.fracDigits)
  let ev := digitsVal x.expDigits
  let f := x.fracDigits.length
  if x.expNeg then (m, 10 ^ (ev + f))
  else if ev ≥ f then (m * 10 ^ (ev - f), 1) else (m, 10 ^ (f - ev))

def numeralMag (x : Numeral) : Rat := mkRat (x.magFrac.1 : Int) x.magFrac.2
def numeralValue (x : Numeral) : Rat := if x.neg then - numeralMag x else numeralMag x

def Numeral.units (x : Numeral) : List Nat :=
  (if x.neg then [45] else if x.plus then [43] else []) ++ x.intDigits.map (· + 48) ++
  (if x.hasDot then 46 :: x.fracDigits.map (· + 48) else []) ++
  (if x.hasExp then (if x.upperE then 69 else 101) ::
      ((if x.expNeg then [45] else if x.expPlus then [43] else []) ++ x.expDigits.map (· + 48)) else [])

/-- the grammar's side conditions -/
def Numeral.wf (x : Numeral) : Bool :=
  !x.intDigits.isEmpty && x.intDigits.all (· ≤ 9) && x.fracDigits.all (· ≤ 9) && x.expDigits.all (· ≤ 9) &&
  (x.hasDot || x.fracDigits.isEmpty) && (!x.hasDot || !x.fracDigits.isEmpty) &&
  (x.hasExp || (x.expDigits.isEmpty && !x.expNeg && !x.expPlus)) && (!x.hasExp || !x.expDigits.isEmpty) &&
  !(x.neg && x.plus) && !(x.expNeg && x.expPlus) && (x.hasExp || !x.upperE)

def Numeral.leadingZero (x : Numeral) : Bool :=
  decide (x.intDigits.length ≥ 2) && x.intDigits.head? == some 0

def Numeral.isIntegerShape (x : Numeral) : Bool := !x.hasDot && !x.hasExp

/-! ### Correct rounding to binary64 -/

/-- round-half-even of `num / den` (`den > 0`) -/
def rne (num den : Nat) : Nat :=
  let q := num / den
  let r := num % den
  if 2 * r < den then q else if 2 * r > den then q + 1 else if q % 2 = 0 then q else q + 1

/-- `⌊log₂ (n/d)⌋` for `n, d > 0` -/
def floorLog2Frac (n d : Nat) : Int :=
  let e0 : Int := (Nat.log2 n : Int) - (Nat.log2 d : Int)
  -- 2^e0 ≤ n/d ?
  if n * 2 ^ (-e0).toNat ≥ d * 2 ^ e0.toNat then e0 else e0 - 1

def infBits : Nat := 0x7FF0000000000000
def maxFiniteBits : Nat := 0x7FEFFFFFFFFFFFFF

/-- nearest binary64 magnitude pattern to `n / d` (`d > 0`), ties to even -/
def nearestMag (n d : Nat) : Nat :=
  if n = 0 ∨ d = 0 then 0 else
  let e := floorLog2Frac n d
  let E : Int := if e < -1022 then -1022 else e        -- exponent of the binade's ulp is E − 52
  let sh : Int := 52 - E
  let m := rne (n * 2 ^ sh.toNat) (d * 2 ^ (-sh).toNat)
  let bits := (E + 1022).toNat * 2 ^ 52 + m
  if bits ≥ infBits then infBits else bits

def nearestDouble (q : Rat) : Nat :=
  nearestMag q.num.natAbs q.den + (if q < 0 then 2 ^ 63 else 0)

/-- distance in ulps between two magnitude patterns (sign bits must have been removed) -/
def ulpDist (a b : Nat) : Nat := if a ≥ b then a - b else b - a

/-- exact value of a finite positive pattern as a fraction `(n, d)` -/
def patternFrac (bits : Nat) : Nat × Nat :=
  let ex := bits / 2 ^ 52 % 2048
  let m := bits % 2 ^ 52
  if ex = 0 then (m, 2 ^ 1074)
  else if ex ≥ 1075 then ((m + 2 ^ 52) * 2 ^ (ex - 1075), 1) else (m + 2 ^ 52, 2 ^ (1075 - ex))

/-- `n/d` exceeds the largest finite double `(2^53 − 1)·2^971` -/
def exceedsMaxFinite (n d : Nat) : Bool := decide (n > (2 ^ 53 - 1) * 2 ^ 971 * d)
/-- `0 < n/d <` the smallest subnormal `2^-1074` -/
def belowMinSubnormal (n d : Nat) : Bool := decide (0 < n) && decide (n * 2 ^ 1074 < d)

/-! ### Reading the longest numeral prefix of a unit string -/

def isDig (u : Nat) : Bool := decide (48 ≤ u) && decide (u ≤ 57)

def takeDigits : List Nat → List Nat × List Nat
  | [] => ([], [])
  | u :: r => if isDig u then let (a, b) := takeDigits r; ((u - 48) :: a, b) else ([], u :: r)

/-- Tokenisation `sign? digits (. digits)? ([eE] sign? digits)?` with every part optional; what is
left over is `rest`. -/
structure Tokens where
  x : Numeral
  rest : List Nat
deriving Repr

def tokenize (t : List Nat) : Tokens :=
  let (neg, plus, t1) := match t with
    | 45 :: r => (true, false, r)
    | 43 :: r => (false, true, r)
    | _ => (false, false, t)
  let (ip, t2) := takeDigits t1
  let (hasDot, fp, t3) := match t2 with
    | 46 :: r => let (a, b) := takeDigits r; (true, a, b)
    | _ => (false, [], t2)
  let (hasExp, upper, eneg, eplus, ed, t4) := match t3 with
    | 101 :: r =>
      (match r with
       | 45 :: r2 => let (a, b) := takeDigits r2; (true, false, true, false, a, b)
       | 43 :: r2 => let (a, b) := takeDigits r2; (true, false, false, true, a, b)
       | _ => let (a, b) := takeDigits r; (true, false, false, false, a, b))
    | 69 :: r =>
      (match r with
       | 45 :: r2 => let (a, b) := takeDigits r2; (true, true, true, false, a, b)
       | 43 :: r2 => let (a, b) := takeDigits r2; (true, true, false, true, a, b)
       | _ => let (a, b) := takeDigits r; (true, true, false, false, a, b))
    | _ => (false, false, false, false, [], t3)
  ⟨{ neg := neg, plus := plus, intDigits := ip, fracDigits := fp, hasDot := hasDot, hasExp := hasExp,
     expNeg := eneg, expPlus := eplus, expDigits := ed, upperE := upper }, t4⟩

inductive Class where
  /-- a grammar numeral (no leading zero) occupying the first `len` units; what follows cannot continue it -/
  | numeral (x : Numeral) (len : Nat)
  /-- the property's malformed list: must be rejected -/
  | leadingZeros | loneDot | repeatedDot | emptyExponent
  /-- accepted-or-not is not fixed by the property (hex, `.5`, `1.`, empty text, garbage first, …) -/
  | other
deriving Repr

def classify (t : List Nat) : Class :=
  let tk := tokenize t
  let x := tk.x
  if x.intDigits.isEmpty then
    (if x.hasDot ∧ x.fracDigits.isEmpty then .loneDot else .other)
  else if x.leadingZero then .leadingZeros
  else if x.intDigits = [0] ∧ !x.hasDot ∧ !x.hasExp ∧ (tk.rest.head? = some 120 ∨ tk.rest.head? = some 88) then .other
  else if x.hasDot ∧ x.fracDigits.isEmpty then
    (if !x.hasExp ∧ tk.rest.head? = some 46 then .repeatedDot else .other)          -- `1.` / `1..2`
  else if x.hasDot ∧ !x.hasExp ∧ tk.rest.head? = some 46 then .repeatedDot          -- `1.2.3`
  else if x.hasExp ∧ x.expDigits.isEmpty then .emptyExponent                          -- `1e`, `1e+`, `1e+-2`
  else .numeral x (t.length - tk.rest.length)

end Qentem.Round
