/-
Model of `StringUtils::EscapeHTMLSpecialChars` (Include/StringUtils.hpp).
Code units are `Nat`, so one definition covers char / char16_t / char32_t / wchar_t.
The C++ keeps two cursors (`offset`, `index`) and flushes `[offset, index)` lazily; the
text appended to the stream is the concatenation of those flushes and the entity strings,
which is what this suffix recursion produces.  The look-ahead guards
(`rem_length > 5 && n_str[5] == ';' && IsEqual(n_str, "&quot", 5)` ...) are the deep
patterns below: a pattern of k units matches exactly when at least k units remain.
-/
namespace Qentem.Escape

/-- The five specials: & < > " ' -/
def cAmp : Nat := 38
def cLt : Nat := 60
def cGt : Nat := 62
def cQuot : Nat := 34
def cApos : Nat := 39

def entAmp  : List Nat := [38, 97, 109, 112, 59]        -- &amp;
def entLt   : List Nat := [38, 108, 116, 59]            -- &lt;
def entGt   : List Nat := [38, 103, 116, 59]            -- &gt;
def entQuot : List Nat := [38, 113, 117, 111, 116, 59]  -- &quot;
def entApos : List Nat := [38, 97, 112, 111, 115, 59]   -- &apos;

def entities : List (List Nat) := [entAmp, entLt, entGt, entQuot, entApos]

/-- `EscapeHTMLSpecialChars` with `Config::AutoEscapeHTML == true`. -/
def escape : List Nat → List Nat
  | 38 :: 113 :: 117 :: 111 :: 116 :: 59 :: rest => 38 :: 113 :: 117 :: 111 :: 116 :: 59 :: escape rest
  | 38 :: 97 :: 112 :: 111 :: 115 :: 59 :: rest  => 38 :: 97 :: 112 :: 111 :: 115 :: 59 :: escape rest
  | 38 :: 97 :: 109 :: 112 :: 59 :: rest         => 38 :: 97 :: 109 :: 112 :: 59 :: escape rest
  | 38 :: 108 :: 116 :: 59 :: rest               => 38 :: 108 :: 116 :: 59 :: escape rest
  | 38 :: 103 :: 116 :: 59 :: rest               => 38 :: 103 :: 116 :: 59 :: escape rest
  | 38 :: rest => 38 :: 97 :: 109 :: 112 :: 59 :: escape rest
  | 60 :: rest => 38 :: 108 :: 116 :: 59 :: escape rest
  | 62 :: rest => 38 :: 103 :: 116 :: 59 :: escape rest
  | 34 :: rest => 38 :: 113 :: 117 :: 111 :: 116 :: 59 :: escape rest
  | 39 :: rest => 38 :: 97 :: 112 :: 111 :: 115 :: 59 :: escape rest
  | c :: rest  => c :: escape rest
  | []         => []

/-- The routine as configured: the flag off makes it a plain write. -/
def escapeCfg (autoEscape : Bool) (s : List Nat) : List Nat :=
  if autoEscape then escape s else s

/-- Reference decoder of the five entities, left to right (the specification side). -/
def decode : List Nat → List Nat
  | 38 :: 113 :: 117 :: 111 :: 116 :: 59 :: rest => 34 :: decode rest
  | 38 :: 97 :: 112 :: 111 :: 115 :: 59 :: rest  => 39 :: decode rest
  | 38 :: 97 :: 109 :: 112 :: 59 :: rest         => 38 :: decode rest
  | 38 :: 108 :: 116 :: 59 :: rest               => 60 :: decode rest
  | 38 :: 103 :: 116 :: 59 :: rest               => 62 :: decode rest
  | c :: rest  => c :: decode rest
  | []         => []

def isSpecialNoAmp (c : Nat) : Bool := c == 60 || c == 62 || c == 34 || c == 39

/-- `s` starts with one of the five entities. -/
def startsEntity (s : List Nat) : Bool :=
  entities.any (fun e => e.isPrefixOf s)

/-- Every `&` in `s` is the first unit of one of the five entities (checked at each suffix). -/
def ampOnlyEntities : List Nat → Bool
  | [] => true
  | c :: rest => (c != 38 || startsEntity (c :: rest)) && ampOnlyEntities rest

end Qentem.Escape
