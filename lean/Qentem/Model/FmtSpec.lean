/-!
Reference formatting (C10) and reference reading (C11), written from the standards — **not** from
`Digit.hpp`, and using none of its tables (no import of the generated constants or of the model).

* IEEE 754-2008 §3.4 binary interchange formats: `decode` gives the exact value of a bit pattern
  as a fraction `num / den` of naturals (`den` a power of two), or `inf` / `nan`.
* ISO C17 §7.21.6.1 `fprintf`, conversions `f`, `e`, `g` (no flags, explicit precision), with the
  value "correctly rounded" to the requested number of digits, ties to even (IEEE 754 §5.12.2 /
  what glibc prints in the default rounding mode):
  - `fixedBody`   = `%.{p}f` of a non-negative value,
  - `generalBody` = `%.{p}g` of a non-negative value,
  - SemiFixed (the library's own format) = `%.{p}f` with trailing fractional zeros, and a
    then-bare point, removed.
  Decimal digits come from core `Nat.toDigits 10`.
* `readDecimal` / `nearestBits`: exact rational value of a decimal numeral and round-to-nearest,
  ties-to-even conversion to a binary interchange format (IEEE 754 §5.12) — the reference for
  "format then parse gives the same bits".

Code units are `Nat` (ASCII codes), so the texts are independent of the character width.
-/
namespace Qentem.FmtSpec

/-! ### values -/

inductive Val where
  | nan
  | inf (neg : Bool)
  | fin (neg : Bool) (num den : Nat)     -- (-1)^neg · num / den
  deriving Repr, DecidableEq

/-- IEEE 754 binary interchange format with `mantBits` trailing-significand bits and `expBits`
exponent bits: value of the pattern `bits`. -/
def decode (mantBits expBits bits : Nat) : Val :=
  let f := bits % 2 ^ mantBits
  let e := (bits / 2 ^ mantBits) % 2 ^ expBits
  let neg := decide ((bits / 2 ^ (mantBits + expBits)) % 2 = 1)
  let bias := 2 ^ (expBits - 1) - 1
  if e = 2 ^ expBits - 1 then (if f = 0 then .inf neg else .nan)
  else
    -- subnormal: f · 2^(1 - bias - mantBits); normal: (2^mantBits + f) · 2^(e - bias - mantBits)
    let m := if e = 0 then f else 2 ^ mantBits + f
    let e1 := if e = 0 then 1 else e
    if bias + mantBits ≤ e1 then .fin neg (m * 2 ^ (e1 - (bias + mantBits))) 1
    else .fin neg m (2 ^ (bias + mantBits - e1))

def decode64 (bits : Nat) : Val := decode 52 11 bits
def decode32 (bits : Nat) : Val := decode 23 8 bits

/-- the exact value as a rational (for reading; the functions below work on `num`/`den`) -/
def Val.toRat? : Val → Option Rat
  | .fin neg num den => some (if neg then - mkRat num den else mkRat num den)
  | _ => none

/-! ### decimal digits and rounding -/

def cZero : Nat := 48
def cDot : Nat := 46
def cMinus : Nat := 45
def cPlus : Nat := 43
def cE : Nat := 101

/-- ASCII decimal digits of `n`, most significant first (`"0"` for zero) -/
def digitsOf (n : Nat) : List Nat := (Nat.toDigits 10 n).map Char.toNat

def padLeft (k : Nat) (l : List Nat) : List Nat := List.replicate (k - l.length) cZero ++ l

/-- `n / d` rounded to the nearest integer, ties to even (`d > 0`) -/
def roundHalfEven (n d : Nat) : Nat :=
  let q := n / d
  let r := n % d
  if d < 2 * r ∨ (2 * r = d ∧ q % 2 = 1) then q + 1 else q

/-- `num / den · 10^k` rounded half-even, for an integer `k` of either sign -/
def scaleRound (num den : Nat) (k : Int) : Nat :=
  if 0 ≤ k then roundHalfEven (num * 10 ^ k.toNat) den else roundHalfEven num (den * 10 ^ (-k).toNat)

/-- remove trailing zeros of the fractional portion, and the point if nothing remains -/
def stripFraction (l : List Nat) : List Nat :=
  if l.contains cDot then
    let r := (l.reverse.dropWhile (· == cZero))
    (match r with
     | c :: rest => if c == cDot then rest else r
     | [] => []).reverse
  else l

/-! ### `%.{p}f` -/

def fixedBody (num den p : Nat) : List Nat :=
  let r := roundHalfEven (num * 10 ^ p) den
  digitsOf (r / 10 ^ p) ++ (if p = 0 then [] else cDot :: padLeft p (digitsOf (r % 10 ^ p)))

/-! ### `%.{p}e` / `%.{p}g` -/

/-- least `k ≥ start` with `den ≤ num · 10^k` (`num > 0`), by bounded search -/
def firstScale (num den : Nat) : Nat → Nat → Nat
  | 0, k => k
  | fuel + 1, k => if den ≤ num * 10 ^ k then k else firstScale num den fuel (k + 1)

/-- `⌊log10 (num/den)⌋` for `num > 0` -/
def floorLog10 (num den : Nat) : Int :=
  if den ≤ num then (((digitsOf (num / den)).length - 1 : Nat) : Int)
  else - ((firstScale num den 1200 1 : Nat) : Int)

/-- significand (exactly `P` digits as a number) and decimal exponent `X` of the `e`-style
conversion with `P` significant digits -/
def sciDigits (num den P : Nat) : Nat × Int :=
  let x0 := floorLog10 num den
  let d := scaleRound num den ((P : Int) - 1 - x0)
  if d = 10 ^ P then (10 ^ (P - 1), x0 + 1) else (d, x0)

/-- `e±dd`: at least two exponent digits -/
def expText (x : Int) : List Nat :=
  cE :: (if x < 0 then cMinus else cPlus) :: padLeft 2 (digitsOf x.natAbs)

/-- `%.{p}e` body with `P = p + 1` significant digits -/
def sciBody (num den P : Nat) : List Nat × Int :=
  let (d, x) := if num = 0 then (0, (0 : Int)) else sciDigits num den P
  let ds := padLeft P (digitsOf d)
  (match ds with
   | d0 :: rest => if rest.isEmpty then [d0] else d0 :: cDot :: rest
   | [] => [], x)

def generalBody (num den p : Nat) : List Nat :=
  let P := if p = 0 then 1 else p
  let x : Int := if num = 0 then 0 else (sciDigits num den P).2
  if -4 ≤ x ∧ x < (P : Int) then
    stripFraction (fixedBody num den ((P : Int) - 1 - x).toNat)
  else
    let (m, x) := sciBody num den P
    stripFraction m ++ expText x

/-! ### the three formats of the library -/

inductive Fmt where
  | default | fixed | semiFixed
  deriving Repr, DecidableEq

def signed (neg : Bool) (body : List Nat) : List Nat := if neg then cMinus :: body else body

def inf : List Nat := [105, 110, 102]
def nan : List Nat := [110, 97, 110]

/-- the reference text for a decoded value -/
def formatVal (v : Val) (p : Nat) (fmt : Fmt) : List Nat :=
  match v with
  | .nan => nan
  | .inf neg => signed neg inf
  | .fin neg num den =>
    signed neg (match fmt with
      | .default => generalBody num den p
      | .fixed => fixedBody num den p
      | .semiFixed => stripFraction (fixedBody num den p))

def format64 (bits p : Nat) (fmt : Fmt) : List Nat := formatVal (decode64 bits) p fmt
def format32 (bits p : Nat) (fmt : Fmt) : List Nat := formatVal (decode32 bits) p fmt

/-! ### reading a decimal numeral exactly and rounding it to a binary format (C11) -/

def isDigit (c : Nat) : Bool := 48 ≤ c && c ≤ 57

def digitsValue (l : List Nat) : Nat := l.foldl (fun a c => a * 10 + (c - 48)) 0

/-- `[-] digits [. digits] [e [+|-] digits]` → `(neg, num, den)` with value `num/den`; `none`
when the text is not of that shape. -/
def readDecimal (t : List Nat) : Option (Bool × Nat × Nat) :=
  let (neg, t) := match t with
    | 45 :: r => (true, r)
    | _ => (false, t)
  let ip := t.takeWhile isDigit
  let t := t.dropWhile isDigit
  if ip.isEmpty then none else
  let (fp, t, okf) := match t with
    | 46 :: r => (r.takeWhile isDigit, r.dropWhile isDigit, !(r.takeWhile isDigit).isEmpty)
    | _ => ([], t, true)
  if !okf then none else
  let mant := digitsValue (ip ++ fp)
  match t with
  | [] => some (neg, mant, 10 ^ fp.length)
  | 101 :: r =>
    let (eneg, r) := match r with
      | 45 :: r' => (true, r')
      | 43 :: r' => (false, r')
      | _ => (false, r)
    if r.isEmpty || !(r.all isDigit) then none else
    let e := digitsValue r
    if eneg then some (neg, mant, 10 ^ fp.length * 10 ^ e)
    else some (neg, mant * 10 ^ e, 10 ^ fp.length)
  | _ => none

/-- `num/den` rounded to nearest (ties to even) in the binary format: the bit pattern. -/
def nearestBits (mantBits expBits : Nat) (neg : Bool) (num den : Nat) : Nat :=
  let signBit := if neg then 2 ^ (mantBits + expBits) else 0
  if num = 0 then signBit else
  let bias : Int := 2 ^ (expBits - 1) - 1
  let a : Int := Nat.log2 num
  let b : Int := Nat.log2 den
  -- 2^(a-b-1) < num/den < 2^(a-b+1)
  let e0 := a - b
  let ge : Bool := if 0 ≤ e0 then decide (den * 2 ^ e0.toNat ≤ num) else decide (den ≤ num * 2 ^ (-e0).toNat)
  let e := if ge then e0 else e0 - 1          -- 2^e ≤ num/den < 2^(e+1)
  let emin : Int := 1 - bias
  let e' := if e < emin then emin else e
  let q := e' - mantBits                       -- exponent of the last place
  let m := if 0 ≤ q then roundHalfEven num (den * 2 ^ q.toNat) else roundHalfEven (num * 2 ^ (-q).toNat) den
  -- m ≤ 2^(mantBits+1); adding it to the exponent field of (e' - 1) carries correctly
  let field := ((e' + bias - 1).toNat) * 2 ^ mantBits + m
  let infBits := (2 ^ expBits - 1) * 2 ^ mantBits
  signBit + (if infBits ≤ field then infBits else field)

/-- reference reading of a text to a bit pattern (`inf`, `-inf`, `nan` included) -/
def readBits (mantBits expBits : Nat) (t : List Nat) : Option Nat :=
  if t = inf then some ((2 ^ expBits - 1) * 2 ^ mantBits)
  else if t = cMinus :: inf then some (2 ^ (mantBits + expBits) + (2 ^ expBits - 1) * 2 ^ mantBits)
  else match readDecimal t with
    | some (neg, num, den) => some (nearestBits mantBits expBits neg num den)
    | none => none

def readBits64 (t : List Nat) : Option Nat := readBits 52 11 t
def readBits32 (t : List Nat) : Option Nat := readBits 23 8 t

end Qentem.FmtSpec
