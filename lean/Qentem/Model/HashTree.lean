/-!
# HArray with a value type that itself holds an HArray (C13, nested values) — value semantics

`harness/hashtree_harness.cpp` drives `struct Node { unsigned tag; HArray<String<char>, Node> kids; }`,
the shape of the library's own `Value` objects.  Source and destination of a copy / move assignment
or of a merge may be related: `root.kids = root.kids["a"].kids`, `child.kids = root.kids`, ...
As an insertion-ordered map the meaning of every operation is defined on values: a node is
`{tag, kids}` with `kids` the association list of its live entries in insertion order (what
iteration by index yields, see `Props.C13.iteration_first_insertion_order`); a path is the list of
keys from the root.  The source value is read (snapshot) before the destination changes.

  g/<path>/<key>  get-or-create      t/<path>/<n>  set tag      r/<path>/<key>  Remove
  x k             Reset / Clear (both empty the map)            z y Y  Compress, copy-construct +
                                                                 assign back (no change of value)
  c/<dst>/<src>   `node(dst).kids = node(src).kids`             (HashTable.hpp copy assignment)
  m/<dst>/<src>   `node(dst).kids = Move(node(src).kids)`       (move assignment)
  a/<dst>/<src>   `node(dst) = node(src)`                        (tag, then kids)
  p q             `node(dst).kids += node(src).kids` / `+= Move(...)`
  i/<dst>/<key>/<src>  `node(dst).kids.Insert(key, node(src))`  (the const-value overloads)

All functions recurse on the path (never on the tree), so they are structurally total.
Not given a meaning here (the harness generator never does them):
  * moving a table into one of its own descendants (`src` a proper ancestor of `dst`): the C++ would
    build an unreachable cycle;
  * `+=` between a node and its own ancestor / descendant: the loop of `operator+=` modifies the
    destination while it iterates over a source that lives inside it (or that contains it).
-/
namespace Qentem.HashTree

structure Node where
  tag : Nat
  kids : List (List Nat × Node)

def Node.fresh : Node := ⟨0, []⟩

abbrev Kids := List (List Nat × Node)

def lookupKid (kids : Kids) (k : List Nat) : Option Node :=
  (kids.find? (fun e => e.1 == k)).map (·.2)

/-- Replace the value stored under `k` (keeps its place). -/
def setKid (kids : Kids) (k : List Nat) (n : Node) : Kids :=
  kids.map (fun e => if e.1 = k then (k, n) else e)

/-- Store `n` under `k`: in place when present, else appended. -/
def putKid (kids : Kids) (k : List Nat) (n : Node) : Kids :=
  match lookupKid kids k with
  | some _ => setKid kids k n
  | none => kids ++ [(k, n)]

def removeKid (kids : Kids) (k : List Nat) : Kids := kids.filter (fun e => e.1 != k)

def getAt : Node → List (List Nat) → Option Node
  | n, [] => some n
  | n, k :: p =>
    match lookupKid n.kids k with
    | some c => getAt c p
    | none => none

/-- Replace the node at `path` (nothing happens when the path does not exist). -/
def setAt : Node → List (List Nat) → Node → Node
  | _, [], x => x
  | n, k :: p, x =>
    match lookupKid n.kids k with
    | some c => ⟨n.tag, setKid n.kids k (setAt c p x)⟩
    | none => n

def setKidsAt (root : Node) (path : List (List Nat)) (ks : Kids) : Node :=
  match getAt root path with
  | some n => setAt root path ⟨n.tag, ks⟩
  | none => root

/-- `dst += src` on values: every source entry is stored, in source order. -/
def mergeKids (dst src : Kids) : Kids := src.foldl (fun acc e => putKid acc e.1 e.2) dst

inductive TreeOp where
  | get (path : List (List Nat)) (k : List Nat)
  | setTag (path : List (List Nat)) (n : Nat)
  | remove (path : List (List Nat)) (k : List Nat)
  | empty (path : List (List Nat))
  | same (path : List (List Nat))
  | copy (dst src : List (List Nat))
  | move (dst src : List (List Nat))
  | assign (dst src : List (List Nat))
  | merge (dst src : List (List Nat))
  | mergeMove (dst src : List (List Nat))
  /-- `node(dst).kids.Insert(k, node(src))` (const value): `src` may be any node, in particular an
  element of the table it is inserted into; it is read before anything changes. -/
  | insertFrom (dst : List (List Nat)) (k : List Nat) (src : List (List Nat))

/-- One operation; `none` = a path does not exist (the harness answers `bad-path`). -/
def TreeOp.step (op : TreeOp) (root : Node) : Option Node :=
  match op with
  | .get p k => (getAt root p).map fun n =>
      match lookupKid n.kids k with
      | some _ => root
      | none => setKidsAt root p (n.kids ++ [(k, Node.fresh)])
  | .setTag p t => (getAt root p).map fun n => setAt root p ⟨t, n.kids⟩
  | .remove p k => (getAt root p).map fun n => setKidsAt root p (removeKid n.kids k)
  | .empty p => (getAt root p).map fun _ => setKidsAt root p []
  | .same p => (getAt root p).map fun _ => root
  | .copy d s =>
    match getAt root d, getAt root s with
    | some _, some sn => some (setKidsAt root d sn.kids)
    | _, _ => none
  | .move d s =>
    match getAt root d, getAt root s with
    | some _, some sn => if d = s then some root else some (setKidsAt (setKidsAt root s []) d sn.kids)
    | _, _ => none
  | .assign d s =>
    match getAt root d, getAt root s with
    | some _, some sn => some (setAt root d sn)
    | _, _ => none
  | .merge d s =>
    match getAt root d, getAt root s with
    | some dn, some sn => if d = s then some root else some (setKidsAt root d (mergeKids dn.kids sn.kids))
    | _, _ => none
  | .mergeMove d s =>
    match getAt root d, getAt root s with
    | some dn, some sn =>
      if d = s then some root else some (setKidsAt (setKidsAt root s []) d (mergeKids dn.kids sn.kids))
    | _, _ => none
  | .insertFrom d k s =>
    match getAt root d, getAt root s with
    | some dn, some sn => some (setKidsAt root d (putKid dn.kids k sn))
    | _, _ => none

def runTree : List TreeOp → Node → Option (List Node)
  | [], _ => some []
  | op :: ops, root =>
    match op.step root with
    | none => none
    | some r => (runTree ops r).map (r :: ·)

end Qentem.HashTree
