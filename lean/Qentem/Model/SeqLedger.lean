import Qentem.Model.Seq
import Qentem.Model.Ledger
/-!
# Allocation events of the flat containers (C16)

Every `Array` (trivially copyable items), `String` and `StringStream` object owns at most one heap
block (`storage_`).  The value models of `Model/Seq.lean` are extended with a table `blks : register →
Option block-id` and a counter of allocations; every operation is compiled — looking at the value state
*before* the operation, exactly as the C++ branches on `Size()/Capacity()/Length()` — into a short list
of pointer-level primitives, executed in the order of the code:

* `refresh x sz`  `Memory::Deallocate(x.storage_)` (an event only when non-null) then
                   `x.storage_ = Memory::Allocate(sz)`                — `Reserve`, copy-assignment of `String`
* `drop x`        `Memory::Deallocate(x.storage_); x.storage_ = nullptr` — destructor, `Reset`, `Detach`+release
* `take x y`      `Deallocate(x.storage_); x.storage_ = y.storage_; y.storage_ = nullptr` (nothing when
                   `x` is `y`)                                         — move construction / assignment, adoption
* `renew T r sz` = `[refresh T sz, take r T]`: allocate the new block first (held by the local pointer
                   `T`), then release the old block of `r` and install the new one — growth (`resize`,
                   `expand`, `String::Write`), copy construction followed by destruction of the old object.

Registers: `0..2` are the program's objects, `tmpT = 3` is the local pointer inside a library routine,
`tmpU = 4` is a temporary object of the caller (`String` temporaries of `operator+`, of the harness).
Sizes are the requested bytes (`units × width`).  Ids number the allocations from 1, as the harness does.
The events are `Qentem.Ledger.Ev`; `Balanced` is proved in `Props/C16Seq.lean` for every primitive list.

What the primitives cannot express: storing a block id over a non-null one without releasing it (a
leak), releasing a block twice.  Whether the code really does what the compiled primitives say is
decided by comparing the model trace with the real trace (`checks/_seq_ledger.py`).
-/
namespace Qentem.SeqLedger
open Qentem.Seq Qentem.Ledger

inductive Prim where
  | refresh (x sz : Nat)
  | drop (x : Nat)
  | take (x y : Nat)
deriving Repr, DecidableEq

def Prim.regs : Prim → List Nat
  | .refresh x _ => [x]
  | .drop x => [x]
  | .take x y => [x, y]

structure LW where
  blks : Nat → Option Nat
  next : Nat

def LW.init : LW := ⟨fun _ => none, 1⟩

/-- `Memory::Deallocate(x.storage_); x.storage_ = nullptr` -/
def mFree (x : Nat) (w : LW) : LW × List Ev :=
  match w.blks x with
  | some b => (⟨setR w.blks x none, w.next⟩, [.free b])
  | none => (w, [])

/-- `x.storage_ = Memory::Allocate(sz)` (the caller has made sure `x.storage_` is null) -/
def mAlloc (x sz : Nat) (w : LW) : LW × List Ev :=
  (⟨setR w.blks x (some w.next), w.next + 1⟩, [.alloc w.next sz])

/-- `x.storage_ = y.storage_; y.storage_ = nullptr` (`x.storage_` is null, `x ≠ y`) -/
def mMove (x y : Nat) (w : LW) : LW :=
  ⟨setR (setR w.blks x (w.blks y)) y none, w.next⟩

def Prim.exec (p : Prim) (w : LW) : LW × List Ev :=
  match p with
  | .refresh x sz =>
    let (w1, e1) := mFree x w
    let (w2, e2) := mAlloc x sz w1
    (w2, e1 ++ e2)
  | .drop x => mFree x w
  | .take x y =>
    if x = y then (w, []) else
    let (w1, e1) := mFree x w
    (mMove x y w1, e1)

def execAll : List Prim → LW → LW × List Ev
  | [], w => (w, [])
  | p :: ps, w =>
    let (w1, e1) := p.exec w
    let (w2, e2) := execAll ps w1
    (w2, e1 ++ e2)

def tmpT : Nat := 3
def tmpU : Nat := 4

def renew (r sz : Nat) : List Prim := [.refresh tmpT sz, .take r tmpT]
def when (c : Bool) (ps : List Prim) : List Prim := if c then ps else []

/-! ### Array<trivial item> (item width `ew` bytes) — Array.hpp -/
def arrPrims (ew : Nat) (op : ArrOp Nat) (st : ArrSt Nat) : List Prim :=
  match op with
  | .push r _ =>
    let a := st r
    when (a.size == a.cap) (renew r (((if a.cap = 0 then 1 else a.cap) * 2) * ew))
  | .pushSelf r i =>
    let a := st r
    if i < a.size then when (a.size == a.cap) (renew r (((if a.cap = 0 then 1 else a.cap) * 2) * ew)) else []
  | .appC r s =>
    let n := (st r).size + (st s).size
    when (decide (n > (st r).cap)) (renew r (n * ew))
  | .appM r s =>
    if (st r).cap = 0 then [.take r s]
    else
      let n := (st r).size + (st s).size
      when (decide (n > (st r).cap)) (renew r (n * ew)) ++ [.drop s]
  | .asgC r s => if r = s then [] else (if (st s).size ≠ 0 then renew r ((st s).size * ew) else [.drop r])
  | .asgM r s => [.take r s]
  | .ctorC r s => if (st s).size ≠ 0 then renew r ((st s).size * ew) else [.drop r]
  | .ctorM r s => [.take r s]
  | .ctorN r n _ => if n ≠ 0 then renew r (n * ew) else [.drop r]
  | .clear _ => []
  | .reset r => [.drop r]
  | .detach r => [.drop r]
  | .reserve r n _ => if n ≠ 0 then [.refresh r (n * ew)] else [.drop r]
  | .resize r n => if n ≠ 0 then renew r (n * ew) else [.drop r]
  | .resizeInit r n => if n ≠ 0 then renew r (n * ew) else [.drop r]
  | .expect r n =>
    let m := n + (st r).size
    when (decide (m > (st r).cap)) (renew r (m * ew))
  | .compress r => if (st r).size ≠ 0 then renew r ((st r).size * ew) else [.drop r]
  | .drop _ _ => []

/-! ### String (unit width `w` bytes) — String.hpp

`ff` ("free first") is the order of effects of `operator=(const Char_T*)`, read off the real code on every
run: `true` = `deallocate(); copyString(str)` (release, then allocate), `false` = the copy is built first
(needed when `str` points into the string's own block). -/
def strPrims (w : Nat) (ff : Bool) (op : StrOp) (st : StrSt) : List Prim :=
  let len := fun r => (st r).data.length
  /- `Write(str, n)` with `n` units: fresh block, old one released afterwards -/
  let write := fun (r n : Nat) => when (n != 0) (renew r ((len r + n + 1) * w))
  /- `merge(a, b)` into the caller's temporary -/
  let merge := fun (n : Nat) => when (n != 0) [Prim.refresh tmpU ((n + 1) * w)]
  match op with
  | .ctorC r s => renew r ((len s + 1) * w)
  | .ctorM r s => [.take r s]
  | .ctorU r u => renew r ((u.length + 1) * w)
  | .ctorF r f => if f.length ≠ 0 then renew r ((f.length + 1) * w) else [.drop r]
  | .adopt r u => renew r ((u.length + 1) * w)
  | .asgC r s => if r = s then [] else [.refresh r ((len s + 1) * w)]
  | .asgM r s => [.take r s]
  | .asgU r u => if ff then [.refresh r ((u.length + 1) * w)] else renew r ((u.length + 1) * w)
  | .appOwn v r off n => write r (if v = 0 then ownSlice (st r).data off n else ownCStr (st r).data off).length
  | .asgOwn r off =>
    match (st r).store with
    | none => []
    | some _ =>
      let sz := ((ownCStr (st r).data off).length + 1) * w
      if ff then [.refresh r sz] else renew r sz
  | .appC r s => write r (len s)
  | .appM r s => write r (len s) ++ [.drop s]
  | .appU r u => write r u.length
  | .appCh r _ => write r 1
  | .plus r s t => merge (len s + len t) ++ [.take r tmpU]
  | .plusM r s t => merge (len s + len t) ++ [.drop t, .take r tmpU]
  | .plusU r s u => merge (len s + u.length) ++ [.take r tmpU]
  | .trim r s => [.refresh tmpU (((trimList (st s).data).length + 1) * w), .take r tmpU]
  | .stepBack _ _ => []
  | .reverse _ _ => []
  | .insertAt r _ i => when (decide (i < len r)) (renew r ((len r + 2) * w))
  | .reset r => [.drop r]
  | .detach r => [.drop r]
  | .cmp _ _ _ => []
  | .cmpU _ _ _ => []

/-! ### StringStream (policy `P`, unit width `w`) — StringStream.hpp -/
def ssPrims (P : Policy) (w : Nat) (op : SsOp) (st : SsSt) : List Prim :=
  let len := fun r => (st r).data.length
  let cap := fun r => (st r).cap
  /- `expand(n)` -/
  let expand := fun (r n : Nat) => renew r (P.alloc (P.grow n) * w)
  /- room for `n` units in total, else `expand(n)` -/
  let need := fun (r n : Nat) => when (decide (cap r < n)) (expand r n)
  /- a `String<Char_T>` temporary of the caller holding `n` units -/
  let tmpStr := fun (n : Nat) => [Prim.refresh tmpU ((n + 1) * w)]
  match op with
  | .ctorN r n => if n ≠ 0 then renew r (P.alloc n * w) else [.drop r]
  | .ctorC r s => if len s ≠ 0 then renew r (P.alloc (len s) * w) else [.drop r]
  | .ctorM r s => [.take r s]
  | .asgC r s => if r = s then [] else need r (len s)
  | .asgM r s => [.take r s]
  | .asgU v r u => if v = 0 then tmpStr u.length ++ need r u.length ++ [.drop tmpU] else need r u.length
  | .pushCh _ r _ => when (cap r == len r) (expand r (len r + 1))
  | .appS r s => need r (len r + len s)
  | .shlS r s => need r (len r + len s)
  | .appU v r u =>
    if v = 0 ∨ v = 3 then tmpStr u.length ++ need r (len r + u.length) ++ [.drop tmpU]
    else need r (len r + u.length)
  | .appOwn v r off n =>
    let d := (st r).data
    if v < 3 then need r (len r + (ownSlice d off n).length)
    else
      let s1 := (st r).insertNull P
      let src := if v < 5 then ownCStr d off else d
      when (cap r == len r) (expand r (len r + 1)) ++
        when (decide (s1.cap < len r + src.length)) (expand r (len r + src.length))
  | .asgOwn v r _ _ => if v = 0 then [] else when (cap r == len r) (expand r (len r + 1))
  | .clear _ => []
  | .reset r => [.drop r]
  | .detach r => [.drop r]
  | .stepBack _ _ => []
  | .reverse _ _ => []
  | .insertAt r _ i => when (decide (i < len r) && cap r == len r) (expand r (len r + 1))
  | .setLength r n _ => need r n
  | .buffer r f => need r (len r + f.length)
  | .expect r n => need r (n + len r)
  | .reserve r n => if n ≠ 0 then [.refresh r (P.alloc n * w)] else [.drop r]
  | .getString r =>
    if cap r > len r then [.take tmpU r, .drop tmpU]
    else [.refresh tmpU ((len r + 1) * w), .drop r, .drop tmpU]
  | .getView r => when (cap r == len r) (expand r (len r + 1))
  | .insertNull r => when (cap r == len r) (expand r (len r + 1))
  | .eqS _ _ _ => []
  | .eqU v _ _ u => if v = 0 then tmpStr u.length ++ [.drop tmpU] else []

/-- Registers named by an operation. -/
def arrRegs : ArrOp Nat → List Nat
  | .push r _ | .pushSelf r _ | .clear r | .reset r | .detach r | .compress r => [r]
  | .ctorN r _ _ | .reserve r _ _ | .resize r _ | .resizeInit r _ | .expect r _ | .drop r _ => [r]
  | .appC r s | .appM r s | .asgC r s | .asgM r s | .ctorC r s | .ctorM r s => [r, s]

def strRegs : StrOp → List Nat
  | .ctorC r s | .ctorM r s | .asgC r s | .asgM r s | .appC r s | .appM r s | .trim r s | .cmp _ r s => [r, s]
  | .plus r s t | .plusM r s t => [r, s, t]
  | .plusU r s _ => [r, s]
  | .appOwn _ r _ _ | .asgOwn r _
  | .ctorU r _ | .ctorF r _ | .adopt r _ | .asgU r _ | .appU r _ | .appCh r _ | .stepBack r _ | .reverse r _
  | .insertAt r _ _ | .reset r | .detach r | .cmpU _ r _ => [r]

def ssRegs : SsOp → List Nat
  | .ctorC r s | .ctorM r s | .asgC r s | .asgM r s | .appS r s | .shlS r s | .eqS _ r s => [r, s]
  | .appOwn _ r _ _ | .asgOwn _ r _ _
  | .ctorN r _ | .asgU _ r _ | .pushCh _ r _ | .appU _ r _ | .clear r | .reset r | .detach r | .stepBack r _
  | .reverse r _ | .insertAt r _ _ | .setLength r _ _ | .buffer r _ | .expect r _ | .reserve r _ | .getString r
  | .getView r | .insertNull r | .eqU _ _ r _ => [r]

/-- The registers destroyed at the end of a program (objects 0..2; the temporaries are already null). -/
def finalDrops : List Prim := [.drop 0, .drop 1, .drop 2, .drop tmpT, .drop tmpU]

/-- Primitive list of a whole program: every operation compiled against the value state before it. -/
def arrProgram (ew : Nat) : List (ArrOp Nat) → ArrSt Nat → List Prim
  | [], _ => []
  | op :: ops, st => arrPrims ew op st ++ arrProgram ew ops (op.step 0 st).1

def strProgram (w : Nat) (ff : Bool) : List StrOp → StrSt → List Prim
  | [], _ => []
  | op :: ops, st => strPrims w ff op st ++ strProgram w ff ops (op.step st).1

def ssProgram (P : Policy) (w : Nat) : List SsOp → SsSt → List Prim
  | [], _ => []
  | op :: ops, st => ssPrims P w op st ++ ssProgram P w ops (op.step P st).1

/-- The allocation trace of a primitive list followed by the destruction of all objects. -/
def traceOf (ps : List Prim) : List Ev := (execAll (ps ++ finalDrops) LW.init).2

def arrTrace (ew : Nat) (ops : List (ArrOp Nat)) : List Ev := traceOf (arrProgram ew ops arrInit)
def strTrace (w : Nat) (ff : Bool) (ops : List StrOp) : List Ev := traceOf (strProgram w ff ops strInit)
def ssTrace (P : Policy) (w : Nat) (ops : List SsOp) : List Ev := traceOf (ssProgram P w ops ssInit)

/-! ### Array<String<char>> — owning items: every item is a `String` that owns at most one block

Ownership slots are again registers of `blks`: `0..2` the array blocks, `tmpT`/`tmpU`/`tmpV` temporaries
(`tmpV` holds the destination's old block while a move assignment installs the new one), and a fresh
slot number (from `6`) for every item ever constructed.  `items r` lists the slots (with the length of
the string, 0 for a default-constructed null string) of the constructed items of array `r` in order.
Raw relocation of items (`resize`, `+= Array&&`) keeps their slots.  Copy construction of an item is
`refresh <fresh slot> (len+1)` (`String(const String&)` always allocates), move construction from the
caller's temporary is `take <fresh slot> tmpU`, `Dispose` is `drop` of each slot in order.
The harness builds item `x` as the string `"v<x>"` and rotates the entry point by the position `c` of
the operation (`c % 4` for `push`: 0,2 copy, 1,3 move). -/

def tmpV : Nat := 5
def firstItemSlot : Nat := 6

structure OW where
  items : Nat → List (Nat × Nat)
  nextSlot : Nat

def OW.init : OW := ⟨fun _ => [], firstItemSlot⟩

/-- length of the harness' item string `"v<x>"` -/
def itemLen (x : Nat) : Nat := 1 + (Nat.repr x).length

def dropItems (l : List (Nat × Nat)) : List Prim := l.map fun it => Prim.drop it.1

/-- copy-construct the items `src` into fresh slots starting at `s0` -/
def copyItems (src : List (Nat × Nat)) (s0 : Nat) : List Prim × List (Nat × Nat) :=
  ((List.range src.length).zip src |>.map fun (k, it) => Prim.refresh (s0 + k) (it.2 + 1),
   (List.range src.length).zip src |>.map fun (k, it) => (s0 + k, it.2))

def defaultItems (n s0 : Nat) : List (Nat × Nat) := (List.range n).map fun k => (s0 + k, 0)

def ew16 : Nat := 16   -- sizeof(String<char>)

def arrOwnPrims (c : Nat) (op : ArrOp Nat) (st : ArrSt Nat) (ow : OW) : List Prim × OW :=
  let it := ow.items
  let ns := ow.nextSlot
  let reset := fun (r : Nat) => dropItems (it r) ++ [Prim.drop r]
  match op with
  | .push r x =>
    let a := st r
    let grow := when (a.size == a.cap) (renew r (((if a.cap = 0 then 1 else a.cap) * 2) * ew16))
    let L := itemLen x
    if c % 2 = 0 then
      ([.refresh tmpU (L + 1)] ++ grow ++ [.refresh ns (L + 1), .drop tmpU], ⟨setR it r (it r ++ [(ns, L)]), ns + 1⟩)
    else
      ([.refresh tmpU (L + 1)] ++ grow ++ [.take ns tmpU], ⟨setR it r (it r ++ [(ns, L)]), ns + 1⟩)
  | .pushSelf r i =>
    -- `r += r[i]` by `const&`: no temporary of the caller; the item is copied after the growth
    match (it r)[i]? with
    | some itm =>
      let a := st r
      (when (a.size == a.cap) (renew r (((if a.cap = 0 then 1 else a.cap) * 2) * ew16)) ++ [.refresh ns (itm.2 + 1)],
       ⟨setR it r (it r ++ [(ns, itm.2)]), ns + 1⟩)
    | none => ([], ow)
  | .appC r s =>
    let n := (st r).size + (st s).size
    let (ps, ni) := copyItems (it s) ns
    (when (decide (n > (st r).cap)) (renew r (n * ew16)) ++ ps, ⟨setR it r (it r ++ ni), ns + (it s).length⟩)
  | .appM r s =>
    let moved := it s
    if (st r).cap = 0 then ([.take r s], ⟨setR (setR it r moved) s [], ns⟩)
    else
      let n := (st r).size + (st s).size
      (when (decide (n > (st r).cap)) (renew r (n * ew16)) ++ [.drop s], ⟨setR (setR it r (it r ++ moved)) s [], ns⟩)
  | .asgC r s =>
    if r = s then ([], ow) else
    let (ps, ni) := copyItems (it s) ns
    (when ((st s).size != 0) [Prim.refresh tmpT ((st s).size * ew16)] ++ ps ++
       [.take tmpV r, .take r tmpT] ++ dropItems (it r) ++ [.drop tmpV],
     ⟨setR it r ni, ns + (it s).length⟩)
  | .asgM r s =>
    if r = s then ([], ow) else
    ([.take tmpV r, .take r s] ++ dropItems (it r) ++ [.drop tmpV], ⟨setR (setR it r (it s)) s [], ns⟩)
  | .ctorC r s =>
    let (ps, ni) := copyItems (it s) ns
    (when ((st s).size != 0) [Prim.refresh tmpT ((st s).size * ew16)] ++ ps ++ reset r ++ [.take r tmpT],
     ⟨setR it r ni, ns + (it s).length⟩)
  | .ctorM r s =>
    if r = s then ([], ow) else (reset r ++ [.take r s], ⟨setR (setR it r (it s)) s [], ns⟩)
  | .ctorN r n init =>
    (when (n != 0) [Prim.refresh tmpT (n * ew16)] ++ reset r ++ [.take r tmpT],
     ⟨setR it r (if init then defaultItems n ns else []), if init then ns + n else ns⟩)
  | .clear r => (dropItems (it r), ⟨setR it r [], ns⟩)
  | .reset r => (reset r, ⟨setR it r [], ns⟩)
  | .detach r => (reset r, ⟨setR it r [], ns⟩)
  | .reserve r n init =>
    (reset r ++ when (n != 0) [Prim.refresh r (n * ew16)],
     ⟨setR it r (if init then defaultItems n ns else []), if init then ns + n else ns⟩)
  | .resize r n =>
    if n ≠ 0 then (dropItems ((it r).drop n) ++ renew r (n * ew16), ⟨setR it r ((it r).take n), ns⟩)
    else (reset r, ⟨setR it r [], ns⟩)
  | .resizeInit r n =>
    if n ≠ 0 then
      (dropItems ((it r).drop n) ++ renew r (n * ew16),
       ⟨setR it r ((it r).take n ++ defaultItems (n - (it r).length) ns), ns + (n - (it r).length)⟩)
    else (reset r, ⟨setR it r [], ns⟩)
  | .expect r n =>
    let m := n + (st r).size
    (when (decide (m > (st r).cap)) (renew r (m * ew16)), ow)
  | .compress r =>
    if (st r).size ≠ 0 then (renew r ((st r).size * ew16), ow) else (reset r, ⟨setR it r [], ns⟩)
  | .drop r n =>
    if n ≤ (st r).size then
      (dropItems ((it r).drop ((it r).length - n)), ⟨setR it r ((it r).take ((it r).length - n)), ns⟩)
    else ([], ow)

/-- Primitives of a whole program (operation positions count from 1, like the harness' counter) and the
item table at its end. -/
def arrOwnProgram : List (ArrOp Nat) → Nat → ArrSt Nat → OW → List Prim × OW
  | [], _, _, ow => ([], ow)
  | op :: ops, c, st, ow =>
    let (p1, ow1) := arrOwnPrims c op st ow
    let (p2, ow2) := arrOwnProgram ops (c + 1) (op.step 0 st).1 ow1
    (p1 ++ p2, ow2)

/-- Destruction of the three arrays: items in order, then the block. -/
def ownFinal (ow : OW) : List Prim :=
  [0, 1, 2].flatMap fun r => dropItems (ow.items r) ++ [Prim.drop r]

/-- Trace of primitives `ps`, the destruction `fin`, and finally a `drop` of every slot mentioned at all
(those emit nothing when the compiled program is right: every other slot is already null). -/
def closedTrace (ps fin : List Prim) : List Ev :=
  (execAll ((ps ++ fin) ++ ((ps ++ fin).flatMap Prim.regs).map Prim.drop) LW.init).2

def arrOwnTrace (ops : List (ArrOp Nat)) : List Ev :=
  let (ps, ow) := arrOwnProgram ops 1 arrInit OW.init
  closedTrace ps (ownFinal ow)

end Qentem.SeqLedger
