import subprocess, sys, json, os
from concurrent.futures import ThreadPoolExecutor
extra={'C01':['C04'],'C02':['C01'],'C05':['C07'],'C06':['C09'],'C10':['C14'],'C15':['C13'],'C16':['C13','C12'],'C17':['C14'],'C18':['C02'],'C20':['C06'],'C11':['C09'],'C08':['C06'],'C07':['C05'],'C12':['C13'],'C09':['C06']}
rnd=sys.argv[1]; ids=sys.argv[2:]
jobs=[]
for pid in ids:
    for i in (1,2):
        d='/tmp/seed_%s%s/_seed/change%d'%(pid,rnd,i)
        if os.path.isdir(d): jobs.append((d,'%s-%s%d'%(pid,rnd,i),[pid]+extra.get(pid,[])))
def run(j):
    d,name,pids=j
    r=subprocess.run(['python3','/verif/tools/try_seed.py','--scratch',d,name]+pids,cwd='/verif',stdout=subprocess.PIPE,stderr=subprocess.STDOUT,text=True)
    try:
        m=json.load(open('/verif/seeded/%s/meta.json'%name))
        return name, m.get('confirmed'), m.get('caught_by'), m.get('caught_with_failing_input'), m.get('error','')
    except Exception as e:
        return name, 'ERR', r.stdout[-300:], '', ''
with ThreadPoolExecutor(4) as ex:
    for res in ex.map(run,jobs): print(*res, flush=True)
