#!/usr/bin/env python3
"""Print the prompt for a fresh mutation-seeding sub-agent (gets the property text only)."""
import json, sys
pid = sys.argv[1]
n = sys.argv[2] if len(sys.argv) > 2 else "a"
p = [json.loads(l) for l in open('/verif/properties.jsonl') if json.loads(l)['id'] == pid][0]
d = "/tmp/seed_%s%s" % (pid, n)
print(f"""You are testing how robust a verification effort is. You work ONLY inside the git worktree {d} (a checkout of the C++ header-only library HaniAmmar/Qentem-Engine: headers in Include/, tests in Tests/, docs in Documentation/). Do not look at or touch anything under /verif or /repo, and do not read any other /tmp directory. The sandbox is offline.

PROPERTY {p['id']} — {p['title']}
Statement: {p['statement']}
Quantifier: {p['quantifier']['text']}
Code anchors: {', '.join(p['anchors']['files'])}

TASK: produce TWO different, independent source changes to the library (each a small patch to files under Include/) such that, for each change:
 1. the library still compiles and the repository's own unedited test-suite still passes: `cmake -G Ninja -B {d}/_b -S {d} >/dev/null && cmake --build {d}/_b -j8 && ctest --test-dir {d}/_b -j8` (15 tests);
 2. the property above is broken by the change;
 3. the breakage needs something specific to manifest — an unusual input, a boundary value, a particular multi-step sequence of operations, a particular size/alignment/capacity, or two cooperating sites that each look fine alone — NOT something ordinary use or a casual smoke test would expose at once. Make it look like a plausible maintainer edit (a refactor, an optimisation, a tidy-up, an off-by-one), not an obviously malicious one.
The two changes should attack different mechanisms of the property (different functions or different clauses of the statement).

For each change i in (1, 2) write into {d}/_seed/change<i>/ :
 - patch.diff  (output of `git diff` for that change alone, relative to the worktree's HEAD; apply-able with `git apply`)
 - demo.cpp    (a small standalone C++17 program including the library headers with `-I{d}/Include` (put `#include <new>` first), that exits 0 and prints PASS on the ORIGINAL code and exits non-zero / prints FAIL (or crashes under `-fsanitize=address,undefined`) with the change applied; say in a comment at the top how to compile it)
 - notes.txt   (which clause of the property it breaks, what is needed to trigger it, why the existing tests do not notice)
Verify everything yourself: with the change applied the suite passes (15/15) and demo fails; without it demo passes. Restore the worktree to a clean state (`git checkout -- .`) before finishing, leaving only the _seed directory (untracked). Remove your build directory {d}/_b at the end.

Final reply (<= 150 words): for each change one line saying what it does and what triggers it, and confirm the verification you ran.""")
