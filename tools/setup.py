#!/usr/bin/env python3
"""MANIFEST.setup_cmd: regenerate every Generated/*.lean from /repo and build the whole Lean
project (library + model driver) once, offline, so the per-property checks are incremental."""
import os
import sys
sys.path.insert(0, os.path.dirname(os.path.dirname(os.path.abspath(__file__))))
from vlib import core, constants  # noqa: E402

for name in constants.area_names():
    ok, msg = constants.generate(name)
    if not ok:
        print("constants", name, "FAILED", msg[-2000:])
        sys.exit(1)
r = core.lake(["build"])
print(r.stdout[-3000:])
sys.exit(r.returncode)
