#!/usr/bin/env python3
"""Regression over every stored seeded change: apply each seeded/<name>/patch.diff to a scratch worktree of
/repo's HEAD (never to /repo itself), run the quick tier of the check(s) that caught it when it was recorded,
and report whether it is still reported with a failing input.  Seeds whose patch no longer applies (the code
they edit was repaired since) are listed as such.  Writes seeded/REGRESSION.json.

  reseed_all.py [--jobs 4] [--only C03,C13-c1,...]
"""
import argparse
import json
import os
import subprocess
import sys
from concurrent.futures import ThreadPoolExecutor

V = os.path.dirname(os.path.dirname(os.path.abspath(__file__)))


def sh(cmd, **kw):
    return subprocess.run(cmd, shell=isinstance(cmd, str), stdout=subprocess.PIPE, stderr=subprocess.STDOUT, text=True, errors="replace", **kw)


def one(name):
    d = os.path.join(V, "seeded", name)
    try:
        meta = json.load(open(os.path.join(d, "meta.json")))
    except Exception as e:
        return name, {"status": "no-meta", "error": str(e)}
    if not meta.get("confirmed"):
        return name, {"status": "unconfirmed"}
    pids = meta.get("caught_with_failing_input") or meta.get("caught_by") or meta.get("checks_run", [])[:1]
    pids = pids[:2]
    wt = "/tmp/reseed_%s_%d" % (name, os.getpid())
    sh("git -C /repo worktree add -q --detach %s HEAD" % wt)
    res = {"checks": pids}
    try:
        r = sh("git -C %s apply %s" % (wt, os.path.join(d, "patch.diff")))
        if r.returncode != 0:
            res["status"] = "patch-does-not-apply"
            return name, res
        caught = []
        for pid in pids:
            r = sh(["python3", os.path.join(V, "check.py"), pid, "--tier", "quick"], cwd=V, timeout=3600,
                   env=dict(os.environ, QENTEM_REPO=wt, VERIF_OUT_DIR=wt + "_out"))
            viol = [l for l in r.stdout.split("\n") if l.startswith("VIOLATION")]
            if viol and "no-failing-input-found" not in viol[0]:
                caught.append(pid)
            elif viol:
                res.setdefault("correspondence_only", []).append(pid)
            else:
                res.setdefault("output_tail", {})[pid] = (r.stdout or "")[-1500:]
        res["caught_with_failing_input"] = caught
        res["status"] = "caught" if caught else "MISSED"
    finally:
        sh("git -C /repo worktree remove --force %s" % wt)
        sh("rm -rf %s_out" % wt)
    return name, res


def main():
    ap = argparse.ArgumentParser()
    ap.add_argument("--jobs", type=int, default=4)
    ap.add_argument("--only", default="")
    a = ap.parse_args()
    names = sorted(n for n in os.listdir(os.path.join(V, "seeded")) if os.path.isdir(os.path.join(V, "seeded", n)))
    if a.only:
        sel = a.only.split(",")
        names = [n for n in names if any(n == s or n.startswith(s + "-") for s in sel)]
    out = {}
    with ThreadPoolExecutor(a.jobs) as ex:
        for name, res in ex.map(one, names):
            out[name] = res
            print(name, res.get("status"), res.get("caught_with_failing_input", ""), flush=True)
    json.dump(out, open(os.path.join(V, "seeded", "REGRESSION.json"), "w"), indent=1, sort_keys=True)
    missed = [n for n, r in out.items() if r.get("status") == "MISSED"]
    print("missed:", missed)
    return 1 if missed else 0


if __name__ == "__main__":
    sys.exit(main())
