#!/usr/bin/env python3
"""Confirm a seeded change and run checks against it.

  try_seed.py <seed-dir> <name> <property-id> [more property ids...]

<seed-dir> holds patch.diff, demo.cpp, notes.txt (written by a sub-agent that saw only the
property text).  Steps, all on /repo itself with the patch applied and undone straight afterwards:
  1. demo passes on the unchanged tree
  2. patch applies; the pinned suite (guard off) still passes; demo fails
  3. each listed check (quick tier) is run; exit code / VIOLATION line recorded
The confirmed change is stored as /verif/seeded/<name>/{patch.diff, demo.cpp, notes.txt, meta.json}.
"""
import json
import os
import shutil
import subprocess
import sys

V = os.path.dirname(os.path.dirname(os.path.abspath(__file__)))


def sh(cmd, **kw):
    return subprocess.run(cmd, shell=isinstance(cmd, str), stdout=subprocess.PIPE, stderr=subprocess.STDOUT, text=True, errors="replace", **kw)


def demo(src, tag):
    exe = "/tmp/seed_demo_%s_%d" % (tag, os.getpid())
    txt = open(src).read()
    extra = ["-DQENTEM_AUTO_ESCAPE_HTML=0"] if "-DQENTEM_AUTO_ESCAPE_HTML=0" in txt else []
    if "-DQENTEM_AVX2" in txt:
        extra += ["-DQENTEM_AVX2=1", "-mavx2"]
    elif "-DQENTEM_SSE2" in txt:
        extra += ["-DQENTEM_SSE2=1", "-msse2"]
    r = sh(["g++", "-std=c++17", "-O1", "-g", "-fsanitize=address,undefined", "-fno-sanitize-recover=all"] + extra +
           ["-I%s/Include" % REPO, src, "-o", exe, "-lpthread"])
    if r.returncode != 0:
        return None, "compile failed: " + r.stdout[-1500:]
    try:
        r = sh([exe], timeout=600)
        rc, out = r.returncode, r.stdout[-800:]
    except subprocess.TimeoutExpired:
        rc, out = "timeout", ""
    os.remove(exe)
    return rc, out


REPO = "/repo"


def main():
    global REPO
    args = sys.argv[1:]
    scratch = False
    if args[0] == "--scratch":
        # builder agents are running checks against /repo: use a scratch worktree of /repo's HEAD instead
        scratch = True
        args = args[1:]
        REPO = "/tmp/seedrepo_%d" % os.getpid()
        sh("git -C /repo worktree add -q --detach %s HEAD" % REPO)
    try:
        return main2(args, scratch)
    finally:
        if scratch:
            sh("git -C /repo worktree remove --force %s" % REPO)
            shutil.rmtree("/tmp/qentem_suite_build_seed_%d" % os.getpid(), ignore_errors=True)


def main2(args, scratch):
    sd, name, pids = args[0], args[1], args[2:]
    patch = os.path.join(sd, "patch.diff")
    dsrc = os.path.join(sd, "demo.cpp")
    meta = {"name": name, "breaks_property": pids[0], "checks_run": pids, "ran": []}
    assert sh("git -C %s status --porcelain --untracked-files=no" % REPO).stdout.strip() == "", "repo not clean"
    meta["applied_to"] = REPO if scratch else "/repo itself"
    rc0, out0 = demo(dsrc, "clean")
    meta["demo_on_unchanged_tree"] = {"rc": rc0, "tail": out0[-300:]}
    r = sh("git -C %s apply --check %s" % (REPO, patch))
    if r.returncode != 0:
        meta["error"] = "patch does not apply: " + r.stdout[-500:]
        print(json.dumps(meta, indent=1))
        return 2
    sh("git -C %s apply %s" % (REPO, patch))
    try:
        s = sh(os.path.join(V, "tools", "run_suite.sh"), env=dict(os.environ, SUITE_SRC=REPO, SUITE_BUILD_DIR=("/tmp/qentem_suite_build_seed_%d" % os.getpid()) if scratch else "/tmp/qentem_suite_build"))
        meta["suite_with_change"] = s.stdout.strip().split("\n")[-3:]
        suite_ok = "100% tests passed" in s.stdout
        rc1, out1 = demo(dsrc, "mut")
        meta["demo_with_change"] = {"rc": rc1, "tail": out1[-300:]}
        confirmed = suite_ok and rc0 == 0 and rc1 not in (0, None)
        meta["confirmed"] = confirmed
        results = {}
        for pid in pids:
            r = sh(["python3", os.path.join(V, "check.py"), pid, "--tier", "quick"], cwd=V, timeout=3600, env=dict(os.environ, QENTEM_REPO=REPO))
            viol = [l for l in r.stdout.split("\n") if l.startswith("VIOLATION")]
            results[pid] = {"exit": r.returncode, "violation_lines": viol,
                            "failing_inputs": [l.strip()[:300] for l in r.stdout.split("\n") if "failing input" in l or "broken" in l][:4]}
            meta["ran"].append("python3 check.py %s --tier quick (with the patch applied to /repo)" % pid)
        meta["check_results"] = results
        meta["caught_by"] = [p for p, v in results.items() if v["exit"] == 1 and v["violation_lines"]]
        meta["caught_with_failing_input"] = [p for p, v in results.items() if v["violation_lines"] and "no-failing-input-found" not in v["violation_lines"][0]]
    finally:
        sh("git -C %s checkout -- ." % REPO)
    if os.path.exists(os.path.join(sd, "notes.txt")):
        meta["needs_to_manifest"] = open(os.path.join(sd, "notes.txt")).read()[:1500]
    out = os.path.join(V, "seeded", name)
    os.makedirs(out, exist_ok=True)
    for f in ("patch.diff", "demo.cpp", "notes.txt"):
        if os.path.exists(os.path.join(sd, f)) and os.path.abspath(sd) != os.path.abspath(out):
            shutil.copy(os.path.join(sd, f), os.path.join(out, f))
    json.dump(meta, open(os.path.join(out, "meta.json"), "w"), indent=1)
    print(json.dumps({k: meta[k] for k in ("name", "confirmed", "caught_by", "caught_with_failing_input")}, indent=0))
    # restore evidence files written by the mutated runs
    sh("git -C %s checkout -- evidence" % V)
    return 0


if __name__ == "__main__":
    sys.exit(main())
