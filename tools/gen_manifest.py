#!/usr/bin/env python3
"""Regenerate MANIFEST.json from checks/cXX.py META blocks (single source of truth)."""
import importlib
import json
import os
import subprocess
import sys

V = os.path.dirname(os.path.dirname(os.path.abspath(__file__)))
sys.path.insert(0, V)
props = [json.loads(l) for l in open(os.path.join(V, "properties.jsonl"))]
NOT_YET = {}
na_file = os.path.join(V, "tools", "not_applicable.json")
if os.path.exists(na_file):
    NOT_YET = json.load(open(na_file))
hook_commits = [l.split()[0] for l in subprocess.run(
    ["git", "-C", "/repo", "log", "--format=%H %s"], stdout=subprocess.PIPE, text=True).stdout.split("\n")
    if "verif hook" in l]
checks, na = [], []
for p in props:
    pid = p["id"]
    fn = os.path.join(V, "checks", pid.lower() + ".py")
    if not os.path.exists(fn):
        na.append({"property_id": pid, "reason": NOT_YET.get(pid, "no check registered yet: the Lean model and correspondence harness for this property are still being built (not a claim that proof cannot apply)")})
        continue
    m = importlib.import_module("checks." + pid.lower())
    M = m.META
    if M.get("disabled"):
        na.append({"property_id": pid, "reason": M["disabled"]})
        continue
    checks.append({
        "property_id": pid,
        "quick_cmd": "python3 check.py %s --tier quick" % pid,
        "thorough_cmd": "python3 check.py %s --tier thorough" % pid,
        "evidence_file": "/verif/evidence/%s.json" % pid,
        "replay_cmd_template": "python3 check.py %s --replay {path}" % pid,
        "engine": "lean4-proof+correspondence",
        "level_claimed": {"category": M.get("level", "proof"), "text": M["text"], "design_ref": M.get("design_ref", "DESIGN.md §6")},
        "level_note": M["note"],
        "technique": M["technique"],
    })
man = {
    "version": 1,
    "setup_cmd": "python3 tools/setup.py",
    "hooks": {
        "guard": "QENTEM_VERIF",
        "enable": "harnesses are compiled with -DQENTEM_VERIF=1 -I/repo/Include (header-only library; nothing in /repo is built separately)",
        "baseline_off_cmd": "cmake -G Ninja -B /repo/_build -S /repo && cmake --build /repo/_build && ctest --test-dir /repo/_build -j8 --timeout 900",
        "source_commits": hook_commits,
        "add_only": True,
    },
    "engines": [{
        "name": "lean4-proof+correspondence", "path": "/verif/check.py",
        "serves_properties": [c["property_id"] for c in checks],
        "kind_free_text": "Lean 4 theorems about hand-written executable models (lean/Qentem), constants regenerated from the headers on every run, models tied to the C++ by a differential line-protocol harness under ASan/UBSan; Lean-defined property predicates evaluated on the real code's output to find failing inputs",
    }],
    "checks": checks,
    "not_applicable": na,
    "notes": "See DESIGN.md. known-findings.txt lists recorded findings (suppress by key) and fixed defects (suppress nothing).",
}
json.dump(man, open(os.path.join(V, "MANIFEST.json"), "w"), indent=1)
print("checks:", [c["property_id"] for c in checks], "not claimed:", [n["property_id"] for n in na])
