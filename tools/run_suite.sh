#!/bin/bash
# Build the pinned test suite from /repo's working tree in a scratch dir (guard OFF) and run it.
set -e
B=${SUITE_BUILD_DIR:-/tmp/qentem_suite_build}
S=${SUITE_SRC:-/repo}
cmake -G Ninja -B "$B" -S "$S" >/dev/null 2>&1
cmake --build "$B" -j16 2>&1 | grep -E "error|warning: unused|FAILED" | head -20 || true
ctest --test-dir "$B" -j8 2>&1 | tail -4
