import subprocess, json, sys
from concurrent.futures import ThreadPoolExecutor
jobs=[(a.split(':')[0], a.split(':')[1].split(',')) for a in sys.argv[1:]]
def run(j):
    n,p=j
    subprocess.run(['python3','/verif/tools/try_seed.py','--scratch','/verif/seeded/'+n,n]+p,cwd='/verif',stdout=subprocess.PIPE,stderr=subprocess.STDOUT)
    m=json.load(open('/verif/seeded/%s/meta.json'%n)); return n,m.get('confirmed'),m.get('caught_by'),m.get('caught_with_failing_input'),m.get('error','')[:100]
with ThreadPoolExecutor(4) as ex:
    for r in ex.map(run,jobs): print(*r,flush=True)
