#!/usr/bin/env python3
"""Run every registered check (from MANIFEST.json) at the given seeds/tier; print a summary table."""
import argparse, json, os, subprocess, sys, time
V = os.path.dirname(os.path.dirname(os.path.abspath(__file__)))
ap = argparse.ArgumentParser()
ap.add_argument("--seeds", default="1")
ap.add_argument("--tier", default="quick")
ap.add_argument("--only", default="")
a = ap.parse_args()
man = json.load(open(os.path.join(V, "MANIFEST.json")))
ids = [c["property_id"] for c in man["checks"]]
if a.only:
    ids = [i for i in ids if i in a.only.split(",")]
bad = 0
for seed in [int(x) for x in a.seeds.split(",")]:
    for pid in ids:
        t = time.time()
        r = subprocess.run(["python3", os.path.join(V, "check.py"), pid, "--tier", a.tier, "--seed", str(seed)], cwd=V,
                           stdout=subprocess.PIPE, stderr=subprocess.PIPE, text=True)
        viol = [l for l in r.stdout.split("\n") if l.startswith("VIOLATION")]
        kf = len([l for l in r.stdout.split("\n") if l.startswith("KNOWN-FINDING")])
        status = "ok" if r.returncode == 0 and not viol else "ALARM"
        if status != "ok":
            bad += 1
        print("%s seed=%d %s rc=%d known=%d %.0fs %s" % (pid, seed, status, r.returncode, kf, time.time() - t, (viol + [""])[0]), flush=True)
        if status != "ok":
            print("   stderr tail:", r.stderr[-600:].replace("\n", " | "), flush=True)
print("alarms:", bad)
sys.exit(1 if bad else 0)
