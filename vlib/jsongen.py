"""Generators and reference semantics for the JSON checks (C05-C08).

A document is a Python tree:
  ("null",) ("true",) ("false",)
  ("num", text)                    numeral text (RFC 8259 grammar)
  ("str", [piece, ...])            piece = ("raw", cp) | ("esc", ch) | ("u", cp, upper) | ("pair", cp, upper)
  ("arr", [doc, ...])
  ("obj", [(key_pieces, doc), ...])
`render(doc, rng)` prints it with random legal whitespace; `denote(doc, w)` gives the canonical
dump (same syntax as harness/json_harness.cpp) that RFC 8259 assigns to it for character width w.
"""
import struct

WS = [" ", "\n", "\t", "\r"]
SIMPLE = {'"': 34, "\\": 92, "/": 47, "b": 8, "f": 12, "n": 10, "r": 13, "t": 9}


def encode_cp(cp, w):
    if w == 1:
        return list(chr(cp).encode("utf-8", "surrogatepass"))
    if w == 2:
        if cp >= 0x10000:
            v = cp - 0x10000
            return [0xD800 + (v >> 10), 0xDC00 + (v & 0x3FF)]
        return [cp]
    return [cp]


JSON_SPECIAL_UNITS = [ord(c) for c in '"\\/bfnrtu[]{},:0189-+.eE '] + [0, 9, 10, 13, 0x1F]


def alias_cp(rng):
    """a scalar value that is NOT special but becomes a JSON special / whitespace / control unit when only its low
    8 or 16 bits are looked at (wide builds): special + k*0x100 or special + k*0x10000"""
    while True:
        s0 = rng.choice(JSON_SPECIAL_UNITS)
        cp = s0 + rng.choice([0x100, 0x200, 0x2000, 0xFF00, 0x10000, 0x20000, 0x100000, 0x100 * rng.randrange(1, 256)])
        if cp < 0x110000 and not (0xD800 <= cp <= 0xDFFF):
            return cp


def gen_cp(rng):
    r = rng.random()
    if r < 0.06:
        return alias_cp(rng)
    if r < 0.55:
        return rng.choice([32, 33, 35, 47, 48, 65, 97, 122, 126, 127, 0x5B, 0x5D, 0x7B, 0x7D, 0x2C, 0x3A])
    if r < 0.7:
        return rng.randrange(0x80, 0x800)
    if r < 0.85:
        cp = rng.randrange(0x800, 0x10000)
        return cp if not (0xD800 <= cp <= 0xDFFF) else 0xE000
    if r < 0.95:
        return rng.randrange(0x10000, 0x110000)
    return rng.choice([0x7F, 0x80, 0x7FF, 0x800, 0xFFFF, 0x10000, 0x10FFFF, 0xD7FF, 0xE000, 0x4FFFF, 0x50000, 0xFFFFF, 0x100000])


def gen_pieces(rng, maxlen=8, escapes=True):
    n = rng.randrange(0, maxlen + 1)
    out = []
    for _ in range(n):
        r = rng.random()
        if not escapes or r < 0.5:
            cp = gen_cp(rng)
            if cp in (34, 92) or cp < 32:
                cp = 65
            out.append(("raw", cp))
        elif r < 0.7:
            out.append(("esc", rng.choice(list(SIMPLE))))
        elif r < 0.85:
            cp = rng.choice([0, 1, 0x1F, 0x20, 0x22, 0x5C, 0x7F, 0x80, 0xFF, 0x7FF, 0x800, 0xD7FF, 0xE000, 0xFFFF, rng.randrange(0, 0xD800)])
            out.append(("u", cp, rng.random() < 0.5))
        else:
            out.append(("pair", rng.randrange(0x10000, 0x110000) if rng.random() < 0.8 else rng.choice([0x10000, 0x10FFFF, 0x4FFFF, 0x50000, 0x1F600]), rng.random() < 0.5))
    return out


def pow2_edge(rng):
    """decimal numeral just below / at / just above a power of two (rounding carries out of the significand)"""
    k = rng.randrange(-70, 80)
    extra = rng.choice([18, 20, 24])
    if k >= 0:
        base, scale = 2 ** k * 10 ** extra, extra
    else:
        base, scale = 5 ** (-k) * 10 ** extra, extra - k
    digs = str(base + rng.choice([-1, 0, 1, -3]))
    if len(digs) <= scale:
        digs = "0" * (scale - len(digs) + 1) + digs
    return ("-" if rng.random() < 0.3 else "") + digs[:-scale] + "." + digs[-scale:]


def gen_number(rng):
    r = rng.random()
    if r < 0.06:
        return pow2_edge(rng)
    if r < 0.09:
        # long integer mantissa (around the 19-digit window / 2^64) with an exponent in either case
        D = rng.choice(["9999999999999999999", "10000000000000000000", "18446744073709551615", "18446744073709551616",
                        "12345678901234567890", "100000000000000000000", str(rng.randrange(10 ** 18, 10 ** 21))])
        return ("-" if rng.random() < 0.3 else "") + D + rng.choice("eE") + rng.choice(["", "+", "-"]) + str(rng.randrange(0, 4))
    if r < 0.35:
        return str(rng.choice([0, 1, 7, 10, 99, 255, 65535, 2 ** 31, 2 ** 32, 2 ** 53, 2 ** 63 - 1, 2 ** 63, 2 ** 63 + 1, 2 ** 64 - 1, rng.randrange(0, 10 ** rng.randrange(1, 19))]))
    if r < 0.55:
        return "-" + str(rng.choice([0, 1, 5, 2 ** 31, 2 ** 63 - 1, 2 ** 63, rng.randrange(1, 10 ** rng.randrange(1, 19))]))
    if r < 0.6:
        if rng.random() < 0.6:
            # 20-digit integers around the unsigned 64-bit limit, every last digit (the 20th-digit overflow test)
            base = rng.choice([10 ** 19, 18446744073709551600, 18446744073709551610, 1844674407370955161 * 10, rng.randrange(10 ** 19, 2 ** 64 - 20) // 10 * 10])
            return str(base + rng.randrange(0, 10) + rng.choice([0, 0, 0, 10]))
        return str(rng.choice([2 ** 64, 2 ** 64 + 1, 10 ** 19, 10 ** 20, 12345678901234567890123]))
    sign = "-" if rng.random() < 0.3 else ""
    ip = str(rng.randrange(0, 10 ** rng.randrange(1, 8)))
    s = sign + ip
    if rng.random() < 0.7:
        s += "." + "".join(rng.choice("0123456789") for _ in range(rng.randrange(1, 12)))
    if rng.random() < 0.5:
        pad = "0" * rng.choice([0, 0, 0, 0, 1, 8, 9, 10, 12])     # exponent digits with leading zeros (value stays small)
        s += rng.choice("eE") + rng.choice(["", "+", "-"]) + pad + str(rng.randrange(0, rng.choice([3, 30, 300])))
    return s


RAW_HASH_ZERO_KEY = "cgrypreuRdaypnax"


def gen_doc(rng, depth=0, maxdepth=4, escapes=True, container=True):
    r = rng.random()
    if container or (depth < maxdepth and r < 0.35):
        if rng.random() < 0.5:
            n = rng.choice([0, 1, 1, 2, 3, 5])
            return ("arr", [gen_doc(rng, depth + 1, maxdepth, escapes, False) for _ in range(n)])
        n = rng.choice([0, 1, 1, 2, 3, 4])
        members = []
        for _ in range(n):
            if members and rng.random() < 0.15:
                k = rng.choice(members)[0]          # duplicate key
            elif rng.random() < 0.02:
                # a name whose hash, before StringUtils::Hash forces the top bit, is 0 (item.Hash == 0 marks a removed entry)
                k = [("raw", ord(c)) for c in RAW_HASH_ZERO_KEY]
            else:
                k = gen_pieces(rng, 4, escapes)
            members.append((k, gen_doc(rng, depth + 1, maxdepth, escapes, False)))
        return ("obj", members)
    if r < 0.5:
        return ("num", gen_number(rng))
    if r < 0.75:
        return ("str", gen_pieces(rng, 10, escapes))
    return (rng.choice(["null", "true", "false"]),)


def ws(rng, p=0.25):
    s = ""
    while rng.random() < p:
        s += rng.choice(WS)
    return s


def render_pieces(pieces, w):
    """text units of a string body (without quotes) in width w"""
    out = []
    for p in pieces:
        if p[0] == "raw":
            out += encode_cp(p[1], w)
        elif p[0] == "esc":
            out += [92, ord(p[1])]
        elif p[0] == "u":
            h = "%04x" % p[1]
            out += [92, 117] + [ord(ch) for ch in (h.upper() if p[2] else h)]
        else:
            v = p[1] - 0x10000
            h1, h2 = "%04x" % (0xD800 + (v >> 10)), "%04x" % (0xDC00 + (v & 0x3FF))
            if p[2]:
                h1, h2 = h1.upper(), h2.upper()
            out += [92, 117] + [ord(ch) for ch in h1] + [92, 117] + [ord(ch) for ch in h2]
    return out


def decoded_units(pieces, w):
    out = []
    for p in pieces:
        if p[0] == "raw":
            out += encode_cp(p[1], w)
        elif p[0] == "esc":
            out.append(SIMPLE[p[1]])
        elif p[0] == "u":
            cp = p[1]
            if 0xD800 <= cp <= 0xDFFF:
                raise ValueError("lone surrogate")
            out += encode_cp(cp, w)
        else:
            out += encode_cp(p[1], w)
    return out


def render(doc, rng, w, spaces=True):
    """-> list of code units"""
    sp = (lambda: [ord(c) for c in ws(rng)]) if spaces else (lambda: [])
    t = doc[0]
    if t in ("null", "true", "false"):
        return [ord(c) for c in t]
    if t == "num":
        return [ord(c) for c in doc[1]]
    if t == "str":
        return [34] + render_pieces(doc[1], w) + [34]
    if t == "arr":
        out = [91] + sp()
        for i, d in enumerate(doc[1]):
            if i:
                out += [44] + sp()
            out += render(d, rng, w, spaces) + sp()
        return out + [93]
    out = [123] + sp()
    for i, (k, d) in enumerate(doc[1]):
        if i:
            out += [44] + sp()
        out += [34] + render_pieces(k, w) + [34] + sp() + [58] + sp() + render(d, rng, w, spaces) + sp()
    return out + [125]


def dump_str(units):
    return '"' + ".".join(str(u) for u in units) + '"'


def num_denote(text):
    """(kind, value): 'n' int, 'i' int (negative), 'r' float bits (correctly rounded)"""
    is_int = not any(c in text for c in ".eE")
    if is_int:
        v = int(text)
        if text.startswith("-"):
            if v == 0:
                return ("r", struct.unpack("<Q", struct.pack("<d", -0.0))[0])
            if v >= -(2 ** 63):
                return ("i", v & (2 ** 64 - 1))
        elif v < 2 ** 64:
            return ("n", v)
    f = float(text)
    return ("r", struct.unpack("<Q", struct.pack("<d", f))[0])


def denote(doc, w):
    t = doc[0]
    if t == "null":
        return "N"
    if t == "true":
        return "T"
    if t == "false":
        return "F"
    if t == "num":
        k, v = num_denote(doc[1])
        if k == "n":
            return "n%x" % v
        return "%s%016x" % (k, v)
    if t == "str":
        return dump_str(decoded_units(doc[1], w))
    if t == "arr":
        return "[" + ";".join(denote(d, w) for d in doc[1]) + "]"
    members = []   # duplicate key: last value wins at the first key's position
    for k, d in doc[1]:
        ku = dump_str(decoded_units(k, w))
        dv = denote(d, w)
        for i, (k2, _) in enumerate(members):
            if k2 == ku:
                members[i] = (ku, dv)
                break
        else:
            members.append((ku, dv))
    return "{" + ";".join(k + ":" + v for k, v in members) + "}"


def tokens(dump):
    """split a dump into comparable tokens"""
    out, i, n = [], 0, len(dump)
    while i < n:
        c = dump[i]
        if c in "[]{};:":
            out.append(c); i += 1
        elif c == '"':
            j = dump.index('"', i + 1)
            out.append(dump[i:j + 1]); i = j + 1
        else:
            j = i
            while j < n and dump[j] not in "[]{};:":
                j += 1
            out.append(dump[i:j]); i = j
    return out


def num_value(tok):
    """numeric token -> ('inf'|'nan'|exact rational as (num, den)) or None"""
    if tok[0] == "n":
        return ("q", int(tok[1:], 16), 1)
    if tok[0] == "i":
        v = int(tok[1:], 16)
        return ("q", v - 2 ** 64 if v >= 2 ** 63 else v, 1)
    if tok[0] == "r":
        b = int(tok[1:], 16)
        f = struct.unpack("<d", struct.pack("<Q", b))[0]
        if f != f:
            return ("nan",)
        if f in (float("inf"), float("-inf")):
            return ("inf", f > 0)
        if f == 0 and (b >> 63):
            return ("negzero",)
        n, d = f.as_integer_ratio()
        return ("q", n, d)
    return None


def same_dump(a, b, real_ulp=0, by_value=False, negzero_is_zero=False):
    """Compare two dumps. Reals may differ by `real_ulp` units in the last place; with
    by_value, numbers of different kinds compare by mathematical value."""
    ta, tb = tokens(a), tokens(b)
    if len(ta) != len(tb):
        return False
    for x, y in zip(ta, tb):
        if x == y:
            continue
        if x and y and x[0] == "r" and y[0] == "r" and real_ulp:
            if abs(int(x[1:], 16) - int(y[1:], 16)) <= real_ulp:
                continue
        if by_value and x and y and x[0] in "nir" and y[0] in "nir":
            vx, vy = num_value(x), num_value(y)
            if negzero_is_zero:
                vx = ("q", 0, 1) if vx == ("negzero",) else vx
                vy = ("q", 0, 1) if vy == ("negzero",) else vy
            if vx == vy:
                continue
        return False
    return True
