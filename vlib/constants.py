"""T1: tables and constants are re-extracted from the real headers on every run.
harness/constants/<area>.cpp includes /repo/Include headers and prints a Lean module
(namespace Qentem.Generated.<Area>) on stdout; the compiler is the translator."""
import os
from . import core


def generate(area):
    src = os.path.join("constants", area.lower() + ".cpp")
    exe, msg = core.build_cpp(src, flags=core.FAST_FLAGS + ["-O0"], tag="const")
    if exe is None:
        return False, "constant dumper does not compile: " + msg
    r = core.sh([exe])
    if r.returncode != 0:
        return False, "constant dumper failed: " + r.stdout
    outdir = os.path.join(core.LEAN_DIR, "Qentem", "Generated")
    os.makedirs(outdir, exist_ok=True)
    out = os.path.join(outdir, area + ".lean")
    text = "-- GENERATED on every run from /repo/Include by harness/constants/%s.cpp — do not edit\n" % area.lower() + r.stdout
    with core.Lock("gen_" + area):
        old = open(out).read() if os.path.exists(out) else None
        if old != text:
            with open(out + ".tmp", "w") as f:
                f.write(text)
            os.rename(out + ".tmp", out)
    return True, ""


def area_names():
    """Area name = first line '// AREA: <Name>' of the dumper, else capitalised file name."""
    import re
    res = []
    d = os.path.join(core.HARNESS, "constants")
    for f in sorted(os.listdir(d)):
        if f.endswith(".cpp"):
            m = re.search(r"//\s*AREA:\s*(\w+)", open(os.path.join(d, f)).read())
            res.append(m.group(1) if m else os.path.splitext(f)[0].capitalize())
    return res
