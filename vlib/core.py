"""
Shared machinery for every property check (DESIGN.md §2, §4).

Stages of a check (all run against /repo's *current working tree*):
  S0  regenerate lean/Qentem/Generated/<Area>.lean from the real headers (compiler = translator)
  S1  lake build of the property's theorem modules, forbidden-token grep, #print axioms audit
  S2  correspondence: the same input lines go to the C++ harness (ASan/UBSan, hooks on) and to
      the compiled Lean model driver; canonical outputs are diffed
  S3  property oracle evaluated directly on what the real code returned
  S4  verdict: VIOLATION lines / KNOWN-FINDING lines / evidence file
"""
import fcntl
import hashlib
import json
import os
import random
import re
import subprocess
import sys
import time

VERIF = os.path.dirname(os.path.dirname(os.path.abspath(__file__)))
REPO = os.environ.get("QENTEM_REPO", "/repo")
INCLUDE = os.path.join(REPO, "Include")
LEAN_DIR = os.path.join(VERIF, "lean")
BUILD = os.path.join(VERIF, "build")
HARNESS = os.path.join(VERIF, "harness")
# VERIF_OUT_DIR (used by tools/reseed_all.py for runs against mutated scratch trees) redirects evidence and
# replay files so that such runs never touch the committed evidence
_OUT = os.environ.get("VERIF_OUT_DIR") or VERIF
EVIDENCE = os.path.join(_OUT, "evidence")
REPLAYS = os.path.join(_OUT, "replays")
FINDINGS_FILE = os.path.join(VERIF, "known-findings.txt")
GUARD = "QENTEM_VERIF"

SAN_FLAGS = ["-std=c++17", "-O1", "-g", "-fsanitize=address,undefined", "-fno-sanitize-recover=all",
             "-ffp-contract=off", "-fno-omit-frame-pointer", "-D%s=1" % GUARD, "-I" + INCLUDE,
             "-I" + HARNESS]
FAST_FLAGS = ["-std=c++17", "-O2", "-ffp-contract=off", "-D%s=1" % GUARD, "-I" + INCLUDE, "-I" + HARNESS]

FORBIDDEN = re.compile(r"\bsorry\b|\badmit\b|^\s*axiom\s|native_decide|bv_decide|implemented_by|"
                       r"\bunsafe\s|maxHeartbeats\s+0|\bextern\b|ofReduceBool", re.M)
ALLOWED_AXIOMS = {"propext", "Quot.sound", "Classical.choice"}


def log(*a):
    print(*a, file=sys.stderr, flush=True)


def sh(cmd, **kw):
    return subprocess.run(cmd, stdout=subprocess.PIPE, stderr=subprocess.STDOUT, text=True, **kw)


class Lock:
    def __init__(self, name):
        os.makedirs(BUILD, exist_ok=True)
        self.path = os.path.join(BUILD, name + ".lock")

    def __enter__(self):
        self.f = open(self.path, "w")
        fcntl.flock(self.f, fcntl.LOCK_EX)
        return self

    def __exit__(self, *a):
        fcntl.flock(self.f, fcntl.LOCK_UN)
        self.f.close()


def tree_hash(paths):
    h = hashlib.sha256()
    for p in sorted(paths):
        if os.path.isdir(p):
            for root, _, files in sorted(os.walk(p)):
                for fn in sorted(files):
                    fp = os.path.join(root, fn)
                    h.update(fp.encode())
                    with open(fp, "rb") as f:
                        h.update(f.read())
        elif os.path.exists(p):
            h.update(p.encode())
            with open(p, "rb") as f:
                h.update(f.read())
    return h.hexdigest()[:16]


_include_hash = None


def include_hash():
    global _include_hash
    if _include_hash is None:
        _include_hash = tree_hash([INCLUDE])
    return _include_hash


def build_cpp(src, flags=None, tag="san", extra_deps=()):
    """Compile harness/<src> against /repo/Include. Keyed by the content of the headers, the
    harness source and the flags, so an edited /repo always gives a fresh binary."""
    flags = list(SAN_FLAGS if flags is None else flags)
    srcp = os.path.join(HARNESS, src)
    key = hashlib.sha256((include_hash() + tree_hash([srcp, os.path.join(HARNESS, "common.hpp")] + list(extra_deps)) +
                          " ".join(flags)).encode()).hexdigest()[:16]
    out = os.path.join(BUILD, "%s.%s.%s" % (os.path.splitext(os.path.basename(src))[0], tag, key))
    if os.path.exists(out):
        return out, ""
    with Lock("cpp_" + os.path.basename(out)):
        if os.path.exists(out):
            return out, ""
        tmp = out + ".tmp%d" % os.getpid()
        r = sh(["g++"] + flags + [srcp, "-o", tmp, "-lpthread"])
        if r.returncode != 0:
            return None, r.stdout
        os.rename(tmp, out)
        # drop stale binaries of the same harness/tag
        base = os.path.basename(out).rsplit(".", 1)[0]
        for fn in os.listdir(BUILD):
            fp = os.path.join(BUILD, fn)
            # another run (different QENTEM_REPO) may be about to execute its own binary: drop only old ones
            if fn.startswith(base + ".") and fp != out and ".tmp" not in fn and not fn.endswith(".lock") \
                    and time.time() - os.path.getmtime(fp) > 7200:
                try:
                    os.remove(fp)
                except OSError:
                    pass
    return out, ""


ASAN_ENV = dict(os.environ, ASAN_OPTIONS="detect_leaks=1:abort_on_error=0:exitcode=97:allocator_may_return_null=1:detect_stack_use_after_return=0",
                UBSAN_OPTIONS="print_stacktrace=1:halt_on_error=1:exitcode=98", LSAN_OPTIONS="exitcode=96")


def classify_fault(rc, err):
    m = re.search(r"ERROR: AddressSanitizer: ([a-zA-Z0-9_-]+)", err)
    if m:
        return "asan:" + m.group(1)
    m = re.search(r"runtime error: ([^\n]{0,80})", err)
    if m:
        return "ubsan:" + re.sub(r"0x[0-9a-f]+", "ADDR", m.group(1)).strip().replace(" ", "_")[:60]
    if "LeakSanitizer" in err:
        return "lsan:leak"
    if rc == "timeout":
        return "timeout"
    if isinstance(rc, int) and rc < 0:
        return "signal:%d" % (-rc)
    return "exit:%s" % rc


def run_lines(exe, lines, args=(), timeout_per_batch=600, env=None, on_fault=None):
    """Feed `lines` (one case per line) to `exe` and return one output line per input.
    The harness prints exactly one line per input line and flushes after each one, so when it
    dies (sanitizer report, signal, timeout) the number of complete output lines identifies the
    faulting input.  That input gets the output 'FAULT <kind>' and the run resumes after it."""
    env = env or ASAN_ENV
    out = []
    faults = []
    pos = 0
    n = len(lines)
    while pos < n:
        data = "\n".join(lines[pos:]) + "\n"
        try:
            p = subprocess.run([exe] + list(args), input=data, stdout=subprocess.PIPE, stderr=subprocess.PIPE,
                               text=True, env=env, timeout=timeout_per_batch, errors="replace")
            rc, so, se = p.returncode, p.stdout, p.stderr
        except subprocess.TimeoutExpired as e:
            rc = "timeout"
            so = e.stdout.decode(errors="replace") if isinstance(e.stdout, bytes) else (e.stdout or "")
            se = e.stderr.decode(errors="replace") if isinstance(e.stderr, bytes) else (e.stderr or "")
        complete = so.split("\n")[:-1]   # a trailing partial line (no newline) is discarded
        if rc == 0 and len(complete) >= n - pos:
            out.extend(complete[:n - pos])
            pos = n
            break
        # a fault (or a leak report at exit)
        k = len(complete)
        if rc == 0:
            raise RuntimeError("harness %s printed %d lines for %d inputs" % (exe, k, n - pos))
        if k >= n - pos:
            # died after the last input was answered (e.g. leak report at exit)
            out.extend(complete[:n - pos])
            kind = classify_fault(rc, se)
            faults.append((n - 1, kind, se[-4000:]))
            if on_fault:
                on_fault(n - 1, kind, se)
            pos = n
            break
        out.extend(complete[:k])
        kind = classify_fault(rc, se)
        out.append("FAULT " + kind)
        faults.append((pos + k, kind, se[-4000:]))
        if on_fault:
            on_fault(pos + k, kind, se)
        pos = pos + k + 1
    return out, faults


def run_lines_parallel(exe, lines, jobs=8, **kw):
    """Split the input into contiguous chunks and run them concurrently (stateless protocols only)."""
    from concurrent.futures import ThreadPoolExecutor
    if len(lines) < 2000 or jobs <= 1:
        return run_lines(exe, lines, **kw)
    size = (len(lines) + jobs - 1) // jobs
    chunks = [(i, lines[i:i + size]) for i in range(0, len(lines), size)]
    with ThreadPoolExecutor(max_workers=jobs) as ex:
        res = list(ex.map(lambda c: run_lines(exe, c[1], **kw), chunks))
    out, faults = [], []
    for (start, _), (o, f) in zip(chunks, res):
        out.extend(o)
        faults.extend((start + i, k, e) for (i, k, e) in f)
    return out, faults


# ---------------------------------------------------------------------------------------------
# Lean side


def lake(args, timeout=3000):
    with Lock("lake"):
        return sh(["lake"] + args, cwd=LEAN_DIR, timeout=timeout)


def driver_path():
    return os.path.join(LEAN_DIR, ".lake", "build", "bin", "qdriver")


def strip_lean_comments(src):
    # nested block comments and line comments
    out = []
    i, depth, n = 0, 0, len(src)
    while i < n:
        if src.startswith("/-", i):
            depth += 1
            i += 2
        elif depth and src.startswith("-/", i):
            depth -= 1
            i += 2
        elif depth:
            if src[i] == "\n":
                out.append("\n")
            i += 1
        elif src.startswith("--", i):
            while i < n and src[i] != "\n":
                i += 1
        else:
            out.append(src[i])
            i += 1
    return "".join(out)


def forbidden_tokens():
    """grep every .lean file of the project (comments stripped) for tokens that would widen the
    trusted base."""
    hits = []
    for root, dirs, files in os.walk(LEAN_DIR):
        if ".lake" in root:
            continue
        for fn in files:
            if fn.endswith(".lean"):
                fp = os.path.join(root, fn)
                src = strip_lean_comments(open(fp).read())
                for m in FORBIDDEN.finditer(src):
                    line = src.count("\n", 0, m.start()) + 1
                    hits.append("%s:%d:%s" % (os.path.relpath(fp, VERIF), line, m.group(0).strip()))
    return hits


def audit_axioms(modules, theorems):
    """#print axioms for every registered theorem; returns {theorem: [axioms]} or raises."""
    os.makedirs(BUILD, exist_ok=True)
    fn = os.path.join(BUILD, "audit_%d.lean" % os.getpid())
    with open(fn, "w") as f:
        for m in modules:
            f.write("import %s\n" % m)
        for t in theorems:
            f.write("#print axioms %s\n" % t)
    r = sh(["lake", "env", "lean", fn], cwd=LEAN_DIR, timeout=1200)
    os.remove(fn)
    res = {}
    text = r.stdout
    # "'name' depends on axioms: [a, b]"  or "'name' does not depend on any axioms"
    for m in re.finditer(r"'([^']+)' depends on axioms:\s*\[([^\]]*)\]", text, re.S):
        res[m.group(1)] = [a.strip() for a in m.group(2).replace("\n", " ").split(",") if a.strip()]
    for m in re.finditer(r"'([^']+)' does not depend on any axioms", text):
        res[m.group(1)] = []
    missing = [t for t in theorems if t not in res]
    return res, missing, text


# ---------------------------------------------------------------------------------------------
# known findings


def load_findings():
    """known-findings.txt: 'finding: property=<id> key=<key> <text>' and 'fixed: ...' lines.
    Only 'finding:' lines suppress; the file is never written at run time."""
    res = {}
    if os.path.exists(FINDINGS_FILE):
        for ln in open(FINDINGS_FILE):
            ln = ln.strip()
            m = re.match(r"finding:\s+property=(\S+)\s+key=(\S+)\s*(.*)", ln)
            if m:
                res.setdefault(m.group(1), {})[m.group(2)] = m.group(3)
    return res


SIMD_BUILDS = [("sse2", ["-DQENTEM_SSE2=1", "-msse2"]), ("avx2", ["-DQENTEM_AVX2=1", "-mavx2"])]


def simd_builds(ctx, src, lines, base, what, jobs=12, tag="san"):
    """The same input lines through SSE2 and AVX2 builds of a harness (ASan/UBSan, exact-size buffers): every
    answer must equal the scalar build's answer `base[i]`, and no sanitizer fault may occur."""
    have_avx2 = "avx2" in open("/proc/cpuinfo").read()
    for name, extra in SIMD_BUILDS:
        if name == "avx2" and not have_avx2:
            ctx.notes.append("CPU without AVX2: AVX2 build not run")
            continue
        exe = ctx.build_harness(src, flags=SAN_FLAGS + extra, tag=tag + "_" + name)
        if not exe:
            continue
        out, faults = run_lines_parallel(exe, lines, jobs=jobs)
        for i, kind, err in faults:
            if base[i].startswith("FAULT"):
                continue      # already reported for the scalar build
            ctx.fail("fault:" + kind, "sanitizer fault in the %s build (%s) on: %s" % (name, what, lines[i][:300]), {"line": lines[i], "build": name, "stderr": err})
        n = 0
        for l, a, b in zip(lines, base, out):
            if a.startswith("FAULT") or b.startswith("FAULT"):
                continue
            if a != b:
                n += 1
                if n <= 3:
                    ctx.fail("simd-differs", "%s build differs from the scalar build (%s): %s -> %s (scalar %s)" % (name, what, l[:300], b[:200], a[:200]),
                             {"line": l, "build": name, "simd": b, "scalar": a})
        ctx.count("simd-builds(%s)" % name, len(lines), len(set(lines)))


class Ctx:
    def __init__(self, pid, tier, seed):
        self.pid = pid
        self.tier = tier
        self.seed = seed
        self.rng = random.Random(seed)
        self.t0 = time.time()
        self.theorems = []
        self.axioms = {}
        self.proof_broken = []      # descriptions of broken proof obligations
        self.corr_broken = []       # descriptions of broken correspondence streams (model != impl)
        self.failures = []          # (key, text, replay_dict) property failures on the real code
        self.infra_errors = []
        self.cov = {"evaluations": 0, "distinct_nontrivial": 0, "samples": [], "streams": {}}
        self.assumptions = []
        self.notes = []
        self.open_statements = []
        self.thorough = (tier == "thorough")

    # ---- S0 -------------------------------------------------------------------------------
    def gen_constants(self, areas):
        from . import constants
        for a in areas:
            ok, msg = constants.generate(a)
            if not ok:
                self.proof_broken.append("constants(%s): %s" % (a, msg[-600:]))

    # ---- S1 -------------------------------------------------------------------------------
    def prove(self, modules, theorems, open_statements=()):
        self.theorems = list(theorems)
        self.open_statements = list(open_statements)
        t = time.time()
        r = lake(["build"] + list(modules))
        self.lake_s = round(time.time() - t, 1)
        if r.returncode != 0:
            errs = [l for l in r.stdout.split("\n") if "error" in l.lower()][:12]
            self.proof_broken.append("lake build %s failed: %s" % (" ".join(modules), " | ".join(errs)[:1500]))
            self.lake_log = r.stdout[-6000:]
        hits = forbidden_tokens()
        if hits:
            self.proof_broken.append("forbidden tokens: " + "; ".join(hits[:10]))
        if r.returncode == 0 and self.thorough:
            # independent re-check of the compiled property modules (one module per call)
            self.leanchecker = {}
            for m in modules:
                t1 = time.time()
                try:
                    rc = sh(["lake", "env", "leanchecker", m], cwd=LEAN_DIR, timeout=3600)
                    self.leanchecker[m] = {"rc": rc.returncode, "s": round(time.time() - t1, 1)}
                    if rc.returncode != 0:
                        self.proof_broken.append("leanchecker rejects %s: %s" % (m, rc.stdout[-600:]))
                except subprocess.TimeoutExpired:
                    self.leanchecker[m] = {"rc": "timeout"}
        if r.returncode == 0:
            res, missing, text = audit_axioms(modules, theorems)
            self.axioms = res
            if missing:
                self.proof_broken.append("theorems not found by #print axioms: %s :: %s" % (missing[:8], text[-800:]))
            bad = {t_: [a for a in ax if a not in ALLOWED_AXIOMS] for t_, ax in res.items()}
            bad = {k: v for k, v in bad.items() if v}
            if bad:
                self.proof_broken.append("unexpected axioms: %s" % bad)
        return not self.proof_broken

    def build_driver(self):
        # the driver links every area's model, so every area's generated constants must exist
        from . import constants
        for a in constants.area_names():
            ok, msg = constants.generate(a)
            if not ok:
                self.infra_errors.append("constants(%s): %s" % (a, msg[-800:]))
        r = lake(["build", "qdriver"])
        if r.returncode != 0:
            self.infra_errors.append("qdriver build failed: " + r.stdout[-3000:])
            return None
        return driver_path()

    def build_harness(self, src, flags=None, tag="san", extra_deps=()):
        exe, msg = build_cpp(src, flags, tag, extra_deps)
        if exe is None:
            self.infra_errors.append("harness %s does not compile against the current tree: %s" % (src, msg[-3000:]))
        return exe

    # ---- S2 -------------------------------------------------------------------------------
    def correspond(self, stream, lines, impl_out, model_out, nontrivial=None, show=lambda s: s, max_report=5):
        """Compare implementation and model outputs line by line. Returns list of disagreeing indexes."""
        assert len(lines) == len(impl_out) == len(model_out), (len(lines), len(impl_out), len(model_out))
        bad = [i for i in range(len(lines)) if impl_out[i] != model_out[i]]
        st = self.cov["streams"].setdefault(stream, {"cases": 0, "disagreements": 0})
        st["cases"] += len(lines)
        st["disagreements"] += len(bad)
        self.cov["evaluations"] += len(lines)
        if nontrivial is not None:
            nt = len(set(l for l in lines if nontrivial(l)))
        else:
            nt = len(set(lines))
        st["distinct_nontrivial"] = st.get("distinct_nontrivial", 0) + nt
        self.cov["distinct_nontrivial"] += nt
        if lines and len(self.cov["samples"]) < 12:
            k = self.rng.randrange(len(lines))
            self.cov["samples"].append({"stream": stream, "input": show(lines[k])[:300], "impl": impl_out[k][:300], "model": model_out[k][:300]})
        if bad:
            ex = [{"input": lines[i][:2000], "impl": impl_out[i][:2000], "model": model_out[i][:2000]} for i in bad[:max_report]]
            self.corr_broken.append({"stream": stream, "count": len(bad), "examples": ex})
        return bad

    def count(self, stream, n, nontrivial, sample=None):
        st = self.cov["streams"].setdefault(stream, {"cases": 0})
        st["cases"] += n
        st["distinct_nontrivial"] = st.get("distinct_nontrivial", 0) + nontrivial
        self.cov["evaluations"] += n
        self.cov["distinct_nontrivial"] += nontrivial
        if sample is not None and len(self.cov["samples"]) < 16:
            self.cov["samples"].append(sample)

    # ---- S3 -------------------------------------------------------------------------------
    def fail(self, key, text, replay):
        """A concrete input on which the *real code* breaks the property. `key` identifies the
        finding class for known-findings.txt."""
        self.failures.append((key, text, replay))

    # ---- S4 -------------------------------------------------------------------------------
    def finish(self, level="proof", trusted_base=(), rule="", checker_cmd="", extra_cov=None):
        os.makedirs(EVIDENCE, exist_ok=True)
        os.makedirs(REPLAYS, exist_ok=True)
        known = load_findings().get(self.pid, {})
        violations = 0
        lines_out = []
        seen_known = set()
        new_fail = []
        for key, text, replay in self.failures:
            if key in known:
                if key not in seen_known:
                    seen_known.add(key)
                    lines_out.append("KNOWN-FINDING: property=%s %s (%s)" % (self.pid, known[key] or text, key))
            else:
                new_fail.append((key, text, replay))
        if new_fail:
            violations += len(new_fail)
            path = os.path.join(REPLAYS, "%s_%s_seed%d.json" % (self.pid, self.tier, self.seed))
            with open(path, "w") as f:
                json.dump({"property": self.pid, "kind": "failing-input", "failures": [
                    {"key": k, "what": t, "replay": r} for k, t, r in new_fail[:50]],
                    "broken_proof_obligations": self.proof_broken, "broken_correspondence": self.corr_broken[:10]}, f, indent=1)
            lines_out.append("VIOLATION property=%s replay=%s" % (self.pid, path))
            for k, t, r in new_fail[:5]:
                log("  failing input [%s]: %s" % (k, t[:400]))
        elif self.proof_broken or self.corr_broken or self.infra_errors:
            violations += 1
            path = os.path.join(REPLAYS, "%s_%s_seed%d.json" % (self.pid, self.tier, self.seed))
            with open(path, "w") as f:
                json.dump({"property": self.pid, "kind": "no-failing-input-found",
                           "broken_proof_obligations": self.proof_broken,
                           "broken_correspondence": self.corr_broken[:20],
                           "infrastructure": self.infra_errors,
                           "lake_log": getattr(self, "lake_log", "")}, f, indent=1)
            lines_out.append("VIOLATION property=%s replay=%s no-failing-input-found" % (self.pid, path))
            for b in self.proof_broken[:3]:
                log("  broken obligation: " + str(b)[:600])
            for b in self.corr_broken[:3]:
                log("  broken correspondence: " + json.dumps(b)[:800])
            for b in self.infra_errors[:3]:
                log("  infrastructure: " + str(b)[:1500])
        discharged = len([t for t in self.theorems if t in self.axioms]) if not self.proof_broken else 0
        cov = dict(self.cov)
        cov.update({
            "obligations": len(self.theorems),
            "discharged": discharged,
            "checker_cmd": checker_cmd or "cd lean && lake build <property modules> && lake env lean <#print axioms file>",
            "trusted_base": list(trusted_base) or DEFAULT_TRUSTED,
            "rule": rule,
            "theorems": self.theorems,
            "axioms_used": sorted({a for ax in self.axioms.values() for a in ax}),
            "open_statements": self.open_statements,
            "known_findings_reported": sorted(seen_known),
            "lake_build_s": getattr(self, "lake_s", None),
            "leanchecker": getattr(self, "leanchecker", None),
            "notes": self.notes,
        })
        if extra_cov:
            cov.update(extra_cov)
        if not cov["samples"]:
            cov["samples"] = [{"theorem": t} for t in self.theorems[:3]] or ["(none)"]
        if cov["obligations"] == 0 or cov["discharged"] == 0:
            # keep the schema satisfiable when S1 is broken: fall back to generic counts
            cov.pop("obligations"); cov.pop("discharged")
            cov["evaluations"] = max(cov["evaluations"], 1)
            cov["distinct_nontrivial"] = max(cov["distinct_nontrivial"], 2) if cov["distinct_nontrivial"] >= 2 else cov["distinct_nontrivial"]
        ev = {
            "property_id": self.pid, "tier": self.tier, "seed": self.seed, "level": level,
            "coverage": cov, "assumptions": self.assumptions, "wall_s": round(time.time() - self.t0, 2),
            "violations": violations,
        }
        with open(os.path.join(EVIDENCE, self.pid + ".json"), "w") as f:
            json.dump(ev, f, indent=1, default=str)
        for l in lines_out:
            print(l, flush=True)
        log("[%s %s seed=%d] evaluations=%d theorems=%d/%d violations=%d wall=%.1fs" % (
            self.pid, self.tier, self.seed, cov.get("evaluations", 0), discharged, len(self.theorems), violations, time.time() - self.t0))
        return 1 if violations else 0


DEFAULT_TRUSTED = [
    "Lean 4.33.0 kernel (lake build of the property modules; thorough tier also runs leanchecker)",
    "axioms reported by #print axioms for every listed theorem: subset of {propext, Quot.sound, Classical.choice}; no native_decide / bv_decide / sorry (grep on every run)",
    "g++ 12 as translator of tables and constants into Lean (harness/constants/*.hpp -> Qentem/Generated/*.lean, regenerated every run)",
    "correspondence harness + generators (differential testing ties the hand-written model's control flow to the C++; its coverage bounds what an edited function body can hide)",
    "ASan/UBSan semantics for 'fault' on the C++ side",
]


def units(s):
    return [ord(c) for c in s]


def show_units(l):
    return ",".join(str(x) for x in l) if l else "-"
